import PynencModel.Model.Monitor
import PynencModel.Gen.Handlers
/-
  C20 — monitoring pages only observe: serving a GET never changes the system.

  "The system" is `Monitor.Sys`: broker queue in order, status/owner/timestamp of every invocation, retries,
  results, exceptions, histories, runner contexts and heartbeats, wait graph, workflow data, trigger store,
  client data store.  A handler is any adaptive sequence of component calls (`Monitor.Prog`) — what it does with
  the answers, and whether it stops with an error part-way, is arbitrary.

  The route table and the set of component methods every handler can reach are regenerated from the source
  tree on every run (`Gen/Handlers.lean`); the theorems below are re-checked against that table.

  Outside the statement: other actors (runners polling the broker) running *during* the GET — the queue
  page's drain/re-route is not atomic with respect to them; the monitor's own process-local state (active
  application selection, deserialisation LRU cache, cached status on objects it built).
-/
namespace Pynenc.C20
open Pynenc Pynenc.Monitor

/-! ### read-only methods and handlers built from them -/

/-- Every component method the classification table calls read-only returns the system exactly as it found
    it — for every state and every argument (existing ids, missing ids, any limit). -/
theorem readOnly_op_preserves (m : Method) (a : Args) (s : Sys) (h : m.kind = .readOnly) :
    (exec m a s).1 = s := by
  cases m <;> first | rfl | (simp [Method.kind] at h)

example : Method.brokerCount.kind = .readOnly ∧ Method.sbGetInvocation.kind = .readOnly := by decide

/-- a state in which every store holds something (used as the witness below) -/
def demo : Sys :=
  { queue := ["i1", "i2"],
    records := [("i1", { parent := none, task := "t", call := "c", wf := "i1" })],
    status := [("i1", { status := "registered", owner := none, ts := 1 })],
    retries := [("i1", 1)], results := [("i0", "r")], exceptions := [("i0", "e")],
    history := [{ id := "i1", status := "registered", runner := none, ts := 1 }],
    runnerCtx := [("r1", "ctx")], heartbeats := [("r1", { created := 1, last := 1, atomic := false, svcStart := none, svcEnd := none })],
    waits := [("i2", "i1")], autoPurge := [(0, "i1")], wfRuns := [("t", "i1")], wfSubs := [("i1", "i2")],
    wfData := [(("i1", "k"), "v")], conditions := [("c1", "t")], triggerDefs := [("t1", "c1")],
    validConds := [("v1", "x")], cronLast := [("c1", 5)], runClaims := [("run0", 1)], cds := [("__pynenc__k", "v")] }

def demoArgs : Args := { id := "i1", id2 := "zz", ids := ["i1", "v1", "a-long-argument"], n := 7, val := "a-long-value", owner := some "rZ", flag := false }

/-- a cheap observable of a state: the size of every store and the sum of the retry counters -/
def sizes (s : Sys) : List Nat :=
  [s.queue.length, s.records.length, s.status.length, s.retries.length, (s.retries.map (·.2)).sum, s.results.length,
   s.exceptions.length, s.history.length, s.runnerCtx.length, s.heartbeats.length, s.waits.length, s.autoPurge.length,
   s.wfRuns.length, s.wfSubs.length, s.wfData.length, s.conditions.length, s.triggerDefs.length, s.validConds.length,
   s.cronLast.length, s.runClaims.length, s.cds.length]

/-- The classification is not vacuous: every method classified mutating really changes some state (so a
    handler that reaches one of them can break the property). -/
theorem mutating_op_can_change (m : Method) (h : m.kind = .mutating) :
    (exec m demoArgs demo).1 ≠ demo := by
  intro e
  have hs : sizes (exec m demoArgs demo).1 = sizes demo := by rw [e]
  revert hs
  cases m <;> first | (simp [Method.kind] at h; done) | decide

example : Method.brokerRetrieve.kind = .mutating ∧ Method.orchAutoPurge.kind = .mutating := by decide

/-- The python names the translator replaced by constructors are the names of those constructors. -/
theorem generated_names_agree : ∀ p ∈ Gen.usedNames, p.1.name = p.2 := by decide

/-- **Any** handler all of whose possible component calls are read-only leaves the whole system state
    unchanged — whatever it computes from the answers, however many calls it makes, and whether it finishes
    (`done`) or raises part-way (`fail`).  Induction over the call tree. -/
theorem handler_readonly_preserves (p : Prog) (h : p.Within (fun m => m.kind = .readOnly)) (s : Sys) :
    p.run s = s := by
  induction h generalizing s with
  | done => rfl
  | fail => rfl
  | @call m a k hm _ ih =>
    simp only [Prog.run]
    rw [readOnly_op_preserves m a s hm]
    exact ih _ s

/-- non-vacuity: a handler that looks an invocation up, fails when it is missing, and otherwise reads status
    and history, is within the read-only alphabet -/
example : (Prog.call .sbGetInvocation { id := "x" } fun r =>
      match r with
      | .raised _ => .fail
      | _ => .call .orchStatus { id := "x" } fun _ => .call .sbGetHistory { id := "x" } fun _ => .done).Within
    (fun m => m.kind = .readOnly) := by
  refine .call rfl fun r => ?_
  cases r <;> first | exact .fail | exact .call rfl fun _ => .call rfl fun _ => .done

/-- and the theorem is sharp: one mutating call is enough to change the state -/
example : (Prog.call .brokerRetrieve {} fun _ => .done).run demo ≠ demo := by decide

/-! ### the generated route table -/

/-- Every GET route of the monitor (enumerated from the real FastAPI route table) only reaches component
    methods classified read-only — except the routes listed in `getExceptions` (the queue page), whose
    non-read-only calls are among `broker.retrieve_invocation` / `broker.route_invocation`.  A python name the
    model does not know (`unknown`) counts as not read-only, so a new call in a view breaks this theorem until
    the method is modelled and classified. -/
theorem all_GET_handlers_readonly : ∀ h ∈ Gen.handlers, h.getOk = true := by decide

/-- the same fact in the form the next theorem uses -/
theorem GET_handler_calls_readonly (h : Handler) (hh : h ∈ Gen.handlers) (hget : h.method = "GET")
    (hex : h.isException = false) : h.unknown = [] ∧ ∀ c ∈ h.calls, c.kind = .readOnly := by
  have hok := all_GET_handlers_readonly h hh
  unfold Handler.getOk at hok
  have hm : (h.method != "GET") = false := by simp [hget]
  rw [hm, Bool.false_or] at hok
  have hnone : getExceptions.find? (fun e => e.1 == h.name) = none := by
    unfold Handler.isException at hex
    rw [List.find?_eq_none]
    intro e he
    have := List.any_eq_false.mp hex e he
    simpa using this
  rw [hnone] at hok
  unfold Handler.readOnly at hok
  rw [Bool.and_eq_true] at hok
  refine ⟨by simpa using hok.1, fun c hc => ?_⟩
  have := List.all_eq_true.mp hok.2 c hc
  simpa using this

/-- **Serving any GET route other than the listed exception leaves the system exactly as it was**: for every
    route of the generated table, every program whose calls are among the methods statically reachable from
    that route's handler, and every system state. -/
theorem GET_routes_preserve (h : Handler) (hh : h ∈ Gen.handlers) (hget : h.method = "GET")
    (hex : h.isException = false) (p : Prog) (hp : p.Within (fun m => m ∈ h.calls)) (s : Sys) :
    p.run s = s := by
  apply handler_readonly_preserves
  have hc := (GET_handler_calls_readonly h hh hget hex).2
  induction hp with
  | done => exact .done
  | fail => exact .fail
  | @call m a k hm _ ih => exact .call (hc _ hm) ih

/-- the table is not empty and the theorem is not vacuous: there are GET routes, the invocation detail page
    is one of them and it does reach backend reads -/
example : (Gen.handlers.filter (fun h => h.method == "GET" && !h.isException)).length ≥ 20 := by decide
example : ∃ h ∈ Gen.handlers, h.name = "pynmon.views.invocations.invocation_detail" ∧ h.method = "GET" ∧
    h.isException = false ∧ .sbGetInvocation ∈ h.calls ∧ .orchStatus ∈ h.calls := by
  decide

/-- The only listed exception that exists in the table is the queue page, served with GET. -/
theorem exceptions_are_queue_view :
    (Gen.handlers.filter Handler.isException).map (fun h => (h.method, h.route)) = [("GET", "/broker/queue")] := by
  decide

/-- Mutating actions are separate POST endpoints: every POST route reaches at least one mutating method and
    every route that can reach a mutating method is POST or the queue page. -/
theorem mutating_routes_are_POST :
    (∀ h ∈ Gen.handlers, h.method = "POST" → h.readOnly = false) ∧
    (∀ h ∈ Gen.handlers, h.readOnly = false → h.method = "POST" ∨ h.isException = true) := by
  decide

/-! ### the queue page (`GET /broker/queue`) -/

private theorem drain_spec (n : Nat) (s : Sys) (acc : List String) :
    drain n s acc = ({ s with queue := s.queue.drop n }, acc ++ s.queue.take n) := by
  induction n generalizing s acc with
  | zero => simp [drain]
  | succ n ih =>
    cases hq : s.queue with
    | nil =>
      simp [drain, retrieve, hq]
      cases s; simp_all
    | cons x rest =>
      simp only [drain, retrieve, hq]
      rw [ih]
      simp [List.append_assoc]

private theorem routeAll_queue (ids : List String) (s : Sys) :
    routeAll ids s = { s with queue := s.queue ++ ids } := by
  induction ids generalizing s with
  | nil => simp [routeAll]
  | cons i rest ih =>
    have : routeAll (i :: rest) s = routeAll rest (route s i) := by simp [routeAll]
    rw [this, ih]
    simp [route, List.append_assoc]

/-- **The repaired queue page changes nothing**: for every system state (any queue content, any length,
    duplicates, queued ids without a stored record), every `limit` (0, negative, smaller or larger than the
    queue) and hence every failure point of the record lookups, the state after `queue_view` is the state
    before — the queue is the same list in the same order and no other store is touched. -/
theorem queueView_preserves (limit : Int) (s : Sys) : (queueView limit s).1 = s := by
  simp only [queueView, drain_spec, routeAll_queue]
  simp

/-- what the page reports: with every displayed record present it shows `min (max limit 0) n` of `n` ids -/
theorem queueView_ok (limit : Int) (s : Sys) (hall : ∀ i ∈ s.queue, hasRecord s i = true) :
    (queueView limit s).2 = .ok (min (max limit 0).toNat s.queue.length) s.queue.length := by
  have hfm : ∀ l : List String, (∀ i ∈ l, hasRecord s i = true) → firstMissing s l = none := by
    intro l hl
    induction l with
    | nil => rfl
    | cons i rest ih =>
      simp only [firstMissing, hl i (by simp), if_true]
      exact ih fun j hj => hl j (by simp [hj])
  simp only [queueView, drain_spec, routeAll_queue]
  simp only [List.drop_length, List.nil_append, List.take_length]
  have hs : ({ s with queue := s.queue } : Sys) = s := rfl
  rw [hfm]
  · simp [List.length_take]
  · intro i hi
    have := hall i (List.mem_of_mem_take hi)
    simpa using this

/-- a queue longer than a limit of 2 whose records are all stored -/
def demoQ : Sys := { queue := ["a", "b", "c"], records := ["a", "b", "c"].map fun i => (i, ⟨none, "t", "c", i⟩) }

/-- non-vacuity of `queueView_ok` -/
example : (∀ i ∈ demoQ.queue, hasRecord demoQ i = true) ∧ (queueView 2 demoQ).2 = .ok 2 3 := by decide

/-- the failing case is real and equally harmless: a queued id whose record is missing makes the page fail
    (`failed`), with the queue untouched -/
example : queueView 5 { queue := ["a", "ghost", "b"], records := [("a", ⟨none, "t", "c", "a"⟩), ("b", ⟨none, "t", "c", "b"⟩)] }
    = ({ queue := ["a", "ghost", "b"], records := [("a", ⟨none, "t", "c", "a"⟩), ("b", ⟨none, "t", "c", "b"⟩)] }, .failed "ghost") := by
  decide

/-- If the broker itself raises inside the drain loop after `k` pops (infrastructure fault), the `finally`
    block still routes the popped ids back: nothing is lost or duplicated — the queue is the original one
    rotated by `k` — and no other store changes. -/
theorem queueView_fault_keeps_messages (k : Nat) (s : Sys) :
    (queueViewFault k s) = { s with queue := s.queue.drop (min k s.queue.length) ++ s.queue.take (min k s.queue.length) } ∧
    (queueViewFault k s).queue.Perm s.queue := by
  have h1 : queueViewFault k s = { s with queue := s.queue.drop (min k s.queue.length) ++ s.queue.take (min k s.queue.length) } := by
    simp only [queueViewFault, drain_spec, routeAll_queue]
    simp
  refine ⟨h1, ?_⟩
  rw [h1]
  exact (List.perm_append_comm).trans (by rw [List.take_append_drop])

/-! ### the handler before the repair (commit 4a8c65f) — refutations -/

/-- Before the repair, a queue longer than the limit was rotated by every GET: 5 queued ids, `limit=2` —
    the first two ids end up behind the other three. -/
theorem queueView_old_rotates :
    let s : Sys := { queue := ["a", "b", "c", "d", "e"],
                     records := ["a", "b", "c", "d", "e"].map fun i => (i, ⟨none, "t", "c", i⟩) }
    (queueViewOld 2 s).1.queue = ["c", "d", "e", "a", "b"] ∧ (queueViewOld 2 s).1 ≠ s ∧
    (queueView 2 s).1 = s := by
  decide

/-- in general: all records present and `0 ≤ limit ≤ n` — the old page moved the first `limit` ids to the back -/
theorem queueView_old_rotates_general (limit : Nat) (s : Sys) (hall : ∀ i ∈ s.queue, hasRecord s i = true)
    (hl : limit ≤ s.queue.length) :
    (queueViewOld limit s).1.queue = s.queue.drop limit ++ s.queue.take limit := by
  have hloop : ∀ (k : Nat) (t : Sys) (acc : List String), (∀ i ∈ t.queue, hasRecord t i = true) → k ≤ t.queue.length →
      t.records = s.records →
      oldLoop k t acc = ({ t with queue := t.queue.drop k }, acc ++ t.queue.take k, none) := by
    intro k
    induction k with
    | zero => intro t acc _ _ _; simp [oldLoop]
    | succ k ih =>
      intro t acc ht hk hr
      cases hq : t.queue with
      | nil => simp [hq] at hk
      | cons x rest =>
        have hx : hasRecord { t with queue := rest } x = true := by
          have := ht x (by simp [hq])
          simpa [hasRecord] using this
        simp only [oldLoop, retrieve, hq, hx, if_true]
        rw [ih]
        · simp [List.append_assoc]
        · intro i hi
          have := ht i (by simp [hq]; exact Or.inr hi)
          simpa [hasRecord] using this
        · simp [hq] at hk; simpa using hk
        · simpa using hr
  have hmin : (min (limit : Int) (s.queue.length : Int)).toNat = limit := by
    have : (limit : Int) ≤ (s.queue.length : Int) := by exact_mod_cast hl
    rw [Int.min_eq_left this]; simp
  simp only [queueViewOld, hmin]
  rw [hloop limit s [] hall hl rfl]
  simp [routeAll_queue]

/-- Before the repair, a queued id whose stored record is missing (state backend purged, broker not) made
    the page fail after the pops: the popped messages were never routed back — the queue shrank from 2 to 1
    (and the message of the *healthy* invocation "a" popped before the ghost was lost as well). -/
theorem queueView_old_drops_on_missing_record :
    let s : Sys := { queue := ["a", "ghost", "b"], records := [("a", ⟨none, "t", "c", "a"⟩), ("b", ⟨none, "t", "c", "b"⟩)] }
    (queueViewOld 20 s) = ({ s with queue := ["b"] }, .failed "ghost") ∧
    (queueView 20 s).1 = s := by
  decide

end Pynenc.C20
