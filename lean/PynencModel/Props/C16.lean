import PynencModel.Model.Backends
import PynencModel.Props.C04
import PynencModel.Props.C08
import PynencModel.Props.C09
/-
  C16 — the in-memory and the SQLite backends are observationally equivalent; both agree with a small
  executable reference model (`Model/Backends.lean`: one abstract state behind orchestrator, wait graph,
  broker and state backend).

  What is proved here (over all states / ids / argument lists / limits, no bounds):
  * the algorithm pairs that differ between the two families are equal as functions of the abstract state
    (`mem_and_match_eq_sql_joins`, `existingMem_eq_existing`, `page_mem_eq_sql`, `mem_filter_by_status_eq_sql`,
    `history_mem_eq_sql_of_distinct_instants`; the running scans, the wait-graph reports and the brokers are
    the theorems of C04 / C09 / C08, gathered in `family_algorithms_agree`);
  * where they are NOT equal the premise is explicit and its failure has a witness
    (`page_negative_diverged_before_repair`, `history_same_instant_diverges`, C09.mem_sql_diverge_without_premise);
  * contract laws of the reference model (`page_is_sorted_slice_of_candidates`, `count_eq_length_all`,
    `filter_by_status_spec`, `purge_resets_every_component`, `purged_answers_like_fresh`, `retries_monotone`,
    `auto_purge_spec`);
  * `observations_deterministic`: two implementations that each simulate the model give the same answers
    on every operation sequence — the differential run of `harness/props/c16.py` checks the simulation
    premise for the in-memory and the SQLite stack, operation by operation.
-/
namespace Pynenc.C16
open Pynenc Pynenc.Backends


/-! ### helper lemmas -/

private theorem mem_dedup {α : Type} [DecidableEq α] (x : α) : ∀ l : List α, x ∈ dedup l ↔ x ∈ l
  | [] => by simp [dedup]
  | y :: ys => by
    have ih := mem_dedup x ys
    by_cases h : x = y
    · subst h; simp [dedup]
    · simp [dedup, List.mem_filter, ih, h]

private theorem mem_idsWithPair (o : Orch) (k v id : String) :
    id ∈ o.idsWithPair k v ↔ (id, k, v) ∈ o.argIdx := by
  unfold Orch.idsWithPair
  rw [mem_dedup]
  simp only [List.mem_map, List.mem_filter, Bool.and_eq_true, decide_eq_true_eq]
  constructor
  · rintro ⟨⟨i, k', v'⟩, ⟨hm, hk, hv⟩, rfl⟩
    simp only at hk hv
    subst hk; subst hv; exact hm
  · intro h
    exact ⟨(id, k, v), ⟨h, rfl, rfl⟩, rfl⟩

private theorem collectSets_spec (o : Orch) : ∀ (key : List (String × String)),
    (o.collectSets key = none ↔ ∃ kv ∈ key, o.idsWithPair kv.1 kv.2 = []) ∧
    (∀ sets, o.collectSets key = some sets → sets = key.map fun kv => o.idsWithPair kv.1 kv.2)
  | [] => by simp [Orch.collectSets]
  | (k, v) :: rest => by
    obtain ⟨ih1, ih2⟩ := collectSets_spec o rest
    by_cases hm : o.idsWithPair k v = []
    · simp [Orch.collectSets, hm]
    · have hne : (o.idsWithPair k v).isEmpty = false := by
        cases h : o.idsWithPair k v with
        | nil => exact absurd h hm
        | cons _ _ => rfl
      constructor
      · simp only [Orch.collectSets, hne, Bool.false_eq_true, if_false, Option.map_eq_none_iff, ih1,
          List.mem_cons, exists_eq_or_imp, hm, false_or]
      · intro sets hs
        simp only [Orch.collectSets, hne, Bool.false_eq_true, if_false] at hs
        cases hc : o.collectSets rest with
        | none => simp [hc] at hs
        | some r =>
          simp only [hc, Option.map_some, Option.some.injEq] at hs
          subst hs
          simp [ih2 r hc]

private theorem mem_interAll (id : String) : ∀ (cs : List (List String)) (r : List String),
    id ∈ Orch.interAll r cs ↔ id ∈ r ∧ ∀ c ∈ cs, id ∈ c
  | [], r => by simp [Orch.interAll]
  | c :: cs, r => by
    have ih := mem_interAll id cs (r.filter (c.contains ·))
    unfold Orch.interAll
    simp only []
    split
    · rename_i he
      have hnil : r.filter (c.contains ·) = [] := by simpa using he
      constructor
      · intro h; simp at h
      · rintro ⟨hr, hall⟩
        have : id ∈ r.filter (c.contains ·) := by
          simp [List.mem_filter, hr, hall c (List.mem_cons_self)]
        rw [hnil] at this; simp at this
    · rw [ih]
      simp only [List.mem_filter, List.contains_iff_mem, List.mem_cons, forall_eq_or_imp]
      constructor
      · rintro ⟨⟨h1, h2⟩, h3⟩; exact ⟨h1, h2, h3⟩
      · rintro ⟨h1, h2, h3⟩; exact ⟨⟨h1, h2⟩, h3⟩

/-- **AND-match in memory = one JOIN per pair.**  `MemOrchestrator.filter_by_key_arguments` (one indexed
    id set per key/value pair, early `return set()` on the first empty set, intersection with early
    `break`) returns exactly the invocations that have EVERY requested (key, value) row in the argument
    index — which is what SQLite's `JOIN … ON arg_key = ? AND arg_value = ?` per pair selects
    (`Orch.matchesKey`); and nothing for an empty filter (callers skip the filter then). -/
theorem mem_and_match_eq_sql_joins (o : Orch) (key : List (String × String)) (id : String) :
    (id ∈ o.memKeyFilter key ↔ key ≠ [] ∧ ∀ kv ∈ key, (id, kv.1, kv.2) ∈ o.argIdx) ∧
    (key ≠ [] → ((o.memKeyFilter key).contains id = o.matchesKey id key)) := by
  have main : id ∈ o.memKeyFilter key ↔ key ≠ [] ∧ ∀ kv ∈ key, (id, kv.1, kv.2) ∈ o.argIdx := by
    unfold Orch.memKeyFilter
    cases key with
    | nil => simp
    | cons kv rest =>
      obtain ⟨h1, h2⟩ := collectSets_spec o (kv :: rest)
      simp only [List.isEmpty_cons, Bool.false_eq_true, if_false, ne_eq, reduceCtorEq, not_false_eq_true, true_and]
      cases hc : o.collectSets (kv :: rest) with
      | none =>
        obtain ⟨kv', hm, he⟩ := h1.1 hc
        simp only [List.not_mem_nil, false_iff]
        intro hall
        have := (mem_idsWithPair o kv'.1 kv'.2 id).2 (hall kv' hm)
        rw [he] at this; simp at this
      | some sets =>
        have hs := h2 sets hc
        subst hs
        simp only [List.map_cons]
        rw [mem_interAll]
        simp only [List.mem_map, forall_exists_index, and_imp, forall_apply_eq_imp_iff₂, List.mem_cons,
          forall_eq_or_imp, mem_idsWithPair]
  refine ⟨main, fun hne => ?_⟩
  have hm : o.matchesKey id key = true ↔ ∀ kv ∈ key, (id, kv.1, kv.2) ∈ o.argIdx := by
    unfold Orch.matchesKey
    simp [List.all_eq_true]
  cases hb : o.matchesKey id key with
  | true =>
    rw [List.contains_iff_mem]
    exact main.2 ⟨hne, hm.1 hb⟩
  | false =>
    cases hc : (o.memKeyFilter key).contains id with
    | false => rfl
    | true =>
      have := (main.1 (List.contains_iff_mem.1 hc)).2
      rw [hm.2 this] at hb; exact absurd hb (by simp)

example : (({ argIdx := [("i1", "k", "a"), ("i1", "v", "d"), ("i2", "k", "a")] } : Orch).memKeyFilter [("k", "a"), ("v", "d")]) = ["i1"] := by decide



/-- `get_existing_invocations` returns the same invocations, in the same (registration) order, whether it
    is computed as in memory — task index ∩ `filter_by_key_arguments` ∩ status index, empty filters
    skipped — or by the SQLite query (task column, one JOIN per key/value pair, `status IN`). -/
theorem existingMem_eq_existing (o : Orch) (task : String) (key : List (String × String)) (statuses : List Status) :
    o.existingMem task key statuses = o.existing task key statuses := by
  unfold Orch.existingMem Orch.existing Orch.taskIds
  rw [List.filter_map, List.filter_filter]
  congr 1
  apply List.filter_congr
  rintro ⟨id, inf⟩ _
  simp only [Function.comp]
  by_cases ht : inf.task = task
  · simp only [ht, decide_true, Bool.and_true, Bool.true_and]
    cases key with
    | nil => cases o.statusOf id <;> simp
    | cons kv rest =>
      rw [(mem_and_match_eq_sql_joins o (kv :: rest) id).2 (by simp)]
      cases o.statusOf id <;> rfl
  · simp [ht]



/-! ### insertion sort facts -/

private theorem insertBy_perm {α : Type} (le : α → α → Bool) (x : α) : ∀ l : List α, (insertBy le x l).Perm (x :: l)
  | [] => by simp [insertBy]
  | y :: ys => by
    unfold insertBy
    split
    · exact List.Perm.refl _
    · exact ((insertBy_perm le x ys).cons y).trans (List.Perm.swap x y ys)

private theorem sortBy_perm {α : Type} (le : α → α → Bool) : ∀ l : List α, (sortBy le l).Perm l
  | [] => by simp [sortBy]
  | x :: xs => by
    have ih := sortBy_perm le xs
    show (insertBy le x (sortBy le xs)).Perm (x :: xs)
    exact (insertBy_perm le x _).trans (ih.cons x)

private theorem insertBy_sorted {α : Type} (le : α → α → Bool)
    (total : ∀ a b, le a b = true ∨ le b a = true) (trans : ∀ a b c, le a b = true → le b c = true → le a c = true)
    (x : α) : ∀ l : List α, l.Pairwise (fun a b => le a b = true) → (insertBy le x l).Pairwise (fun a b => le a b = true)
  | [], _ => by simp [insertBy]
  | y :: ys, h => by
    unfold insertBy
    have ⟨hy, hys⟩ := List.pairwise_cons.1 h
    split
    · rename_i hxy
      refine List.pairwise_cons.2 ⟨?_, h⟩
      intro a ha
      rcases List.mem_cons.1 ha with rfl | ha
      · exact hxy
      · exact trans _ _ _ hxy (hy a ha)
    · rename_i hxy
      have hyx : le y x = true := by
        rcases total x y with h | h
        · exact absurd h hxy
        · exact h
      refine List.pairwise_cons.2 ⟨?_, insertBy_sorted le total trans x ys hys⟩
      intro a ha
      have := (insertBy_perm le x ys).mem_iff.1 ha
      rcases List.mem_cons.1 this with rfl | ha
      · exact hyx
      · exact hy a ha

private theorem sortBy_sorted {α : Type} (le : α → α → Bool)
    (total : ∀ a b, le a b = true ∨ le b a = true) (trans : ∀ a b c, le a b = true → le b c = true → le a c = true) :
    ∀ l : List α, (sortBy le l).Pairwise (fun a b => le a b = true)
  | [] => by simp [sortBy]
  | x :: xs => insertBy_sorted le total trans x _ (sortBy_sorted le total trans xs)

private theorem sortDesc_perm (o : Orch) (l : List String) : (o.sortDesc l).Perm l := sortBy_perm _ l

private theorem sortDesc_sorted (o : Orch) (l : List String) : (o.sortDesc l).Pairwise (fun a b => o.tsOf a ≥ o.tsOf b) := by
  have := sortBy_sorted (fun a b => decide (o.tsOf a ≥ o.tsOf b))
    (by intro a b; simp only [decide_eq_true_eq]; omega)
    (by intro a b c; simp only [decide_eq_true_eq]; omega) l
  simpa [Orch.sortDesc] using this

/-! ### pagination -/

private theorem pySlice_nonneg {α : Type} (l : List α) (off lim : Nat) :
    Orch.pySlice l (off : Int) ((off : Int) + (lim : Int)) = (l.drop off).take lim := by
  unfold Orch.pySlice Orch.pyBound
  have h1 : ¬ ((off : Int) < 0) := by omega
  have h2 : ¬ ((off : Int) + (lim : Int) < 0) := by omega
  simp only [h1, h2, if_false]
  have e1 : ((off : Int)).toNat = off := by omega
  have e2 : ((off : Int) + (lim : Int)).toNat = off + lim := by omega
  rw [e1, e2, List.drop_take]
  by_cases h : off ≤ l.length
  · have e0 : min off l.length = off := by omega
    rw [e0]
    by_cases h' : off + lim ≤ l.length
    · have e : min (off + lim) l.length = off + lim := by omega
      rw [e]
      congr 1; omega
    · have e : min (off + lim) l.length = l.length := by omega
      rw [e]
      rw [List.take_of_length_le (by simp), List.take_of_length_le (by simp; omega)]
  · have e0 : min off l.length = l.length := by omega
    rw [e0]
    have d1 : l.drop l.length = [] := by simp
    have d2 : l.drop off = [] := by apply List.drop_of_length_le; omega
    simp [d1, d2]

/-- **Python slice = LIMIT/OFFSET** for the inputs the contract describes (limit and offset are counts):
    `sorted_ids[offset : offset + limit]` of the in-memory orchestrator and `ORDER BY status_timestamp DESC
    LIMIT ? OFFSET ?` of the SQLite one are both `take limit ∘ drop offset ∘ sort by timestamp, newest first`. -/
theorem page_mem_eq_sql (o : Orch) (task : Option String) (statuses : List Status) (limit offset : Nat) :
    o.memPage task statuses limit offset = o.paginated task statuses limit offset ∧
    o.sqlPage task statuses limit offset = o.paginated task statuses limit offset := by
  have h1 : max (offset : Int) 0 = (offset : Int) := by omega
  have h2 : max (limit : Int) 0 = (limit : Int) := by omega
  constructor
  · unfold Orch.memPage Orch.paginated
    rw [h1, h2]
    exact pySlice_nonneg _ offset limit
  · unfold Orch.sqlPage Orch.paginated Orch.sqlLimitOffset
    rw [h1, h2]
    have h : ¬ ((limit : Int) < 0) := by omega
    simp [h]

/-- Outside the contract (negative numbers) both families now clamp to 0 (repair 0028ffb; before it a negative
    limit was "up to the end minus |limit|" for the Python slice and "no limit" for SQLite, a negative offset counted
    from the end in Python and was 0 for SQLite): for ALL integers the two pages are the documented page of
    `limit.toNat`, `offset.toNat`. -/
theorem page_all_integers_agree (o : Orch) (task : Option String) (statuses : List Status) (limit offset : Int) :
    o.memPage task statuses limit offset = o.paginated task statuses limit.toNat offset.toNat ∧
    o.sqlPage task statuses limit offset = o.paginated task statuses limit.toNat offset.toNat := by
  have h1 : max offset 0 = (offset.toNat : Int) := by omega
  have h2 : max limit 0 = (limit.toNat : Int) := by omega
  constructor
  · unfold Orch.memPage Orch.paginated
    rw [h1, h2]
    exact pySlice_nonneg _ offset.toNat limit.toNat
  · unfold Orch.sqlPage Orch.paginated Orch.sqlLimitOffset
    have h : ¬ (max limit 0 < 0) := by omega
    have e1 : (max offset 0).toNat = offset.toNat := by omega
    have e2 : (max limit 0).toNat = limit.toNat := by omega
    simp only [h, if_false, e1, e2]

/-- the pre-repair slice and LIMIT/OFFSET functions themselves still differ on negative numbers (kept as the record of
    the divergence the repair removed) -/
theorem page_negative_diverged_before_repair :
    Orch.pySlice ["i1", "i0"] 0 (0 + (-1)) = ["i1"] ∧ Orch.sqlLimitOffset ["i1", "i0"] (-1) 0 = ["i1", "i0"] ∧
    Orch.pySlice ["i1", "i0"] (-1) ((-1) + 2) = [] ∧ Orch.sqlLimitOffset ["i1", "i0"] 2 (-1) = ["i1", "i0"] := by decide

/-- **Contract of a page**: newest first by status timestamp, drawn from the invocations matching the
    filters (each at most as often as it is a candidate), never longer than `limit`; the unpaginated
    answer is a permutation of the candidates. -/
theorem page_is_sorted_slice_of_candidates (o : Orch) (task : Option String) (statuses : List Status) (limit offset : Nat) :
    (o.paginated task statuses limit offset).Pairwise (fun a b => o.tsOf a ≥ o.tsOf b) ∧
    (o.paginated task statuses limit offset).Sublist (o.sortDesc (o.cands task statuses)) ∧
    (∀ x ∈ o.paginated task statuses limit offset, x ∈ o.cands task statuses) ∧
    (o.paginated task statuses limit offset).length ≤ limit ∧
    (o.sortDesc (o.cands task statuses)).Perm (o.cands task statuses) := by
  have hsub : (o.paginated task statuses limit offset).Sublist (o.sortDesc (o.cands task statuses)) :=
    (List.take_sublist _ _).trans (List.drop_sublist _ _)
  refine ⟨(sortDesc_sorted o _).sublist hsub, hsub, ?_, ?_, sortDesc_perm o _⟩
  · intro x hx
    exact (sortDesc_perm o _).mem_iff.1 (hsub.subset hx)
  · unfold Orch.paginated
    rw [List.length_take]; omega

/-- `count_invocations` = length of the full listing: a page with `limit ≥ count` and offset 0 has
    exactly `count` entries, so does SQLite's unlimited page, and `count` is the number of candidates. -/
theorem count_eq_length_all (o : Orch) (task : Option String) (statuses : List Status) (limit : Nat)
    (h : o.count task statuses ≤ limit) :
    (o.paginated task statuses limit 0).length = o.count task statuses ∧
    (o.sqlPage task statuses limit 0).length = o.count task statuses ∧
    o.count task statuses = (o.cands task statuses).length := by
  have hl : (o.sortDesc (o.cands task statuses)).length = o.count task statuses := (sortDesc_perm o _).length_eq
  have hp : (o.paginated task statuses limit 0).length = o.count task statuses := by
    unfold Orch.paginated
    rw [List.drop_zero, List.length_take, hl]; omega
  refine ⟨hp, ?_, rfl⟩
  have := (page_all_integers_agree o task statuses (limit : Int) 0).2
  rw [this]
  simpa using hp

example :
    let o : Orch := (({} : Orch).registerInv "i0" { task := "t", call := "c", args := [] } none 5).registerInv
      "i1" { task := "u", call := "c", args := [] } none 5
    o.count none [] = 2 ∧ o.count (some "t") [.registered] = 1 ∧ o.paginated none [] 5 0 = ["i0", "i1"] ∧
    o.paginated none [] 1 1 = ["i1"] := by decide

/-! ### filter_by_status -/

/-- `filter_by_status(ids, filter)` keeps exactly the given ids whose current status is in the filter
    (an id the orchestrator does not know has no status and is dropped), in the given order. -/
theorem filter_by_status_spec (o : Orch) (ids : List String) (filter : List Status) :
    (o.filterByStatus ids filter).Sublist ids ∧
    ∀ x, x ∈ o.filterByStatus ids filter ↔ x ∈ ids ∧ ∃ s, o.statusOf x = some s ∧ s ∈ filter := by
  refine ⟨List.filter_sublist, fun x => ?_⟩
  unfold Orch.filterByStatus
  rw [List.mem_filter]
  cases h : o.statusOf x with
  | none => simp
  | some s => simp

/-- The in-memory `filter_by_status` (one `get_invocation_status` per id) returns what the SQLite `IN`
    query returns whenever every given id is known, and raises `KeyError` otherwise. -/
theorem mem_filter_by_status_eq_sql (o : Orch) (filter : List Status) : ∀ ids : List String,
    ((∀ x ∈ ids, (o.statusOf x).isSome) → o.memFilterByStatus ids filter = .ok (o.filterByStatus ids filter)) ∧
    ((∃ x ∈ ids, o.statusOf x = none) → o.memFilterByStatus ids filter = .error ())
  | [] => by simp [Orch.memFilterByStatus, Orch.filterByStatus]
  | id :: rest => by
    obtain ⟨ih1, ih2⟩ := mem_filter_by_status_eq_sql o filter rest
    constructor
    · intro hall
      have hid := hall id List.mem_cons_self
      have hrest := ih1 (fun x hx => hall x (List.mem_cons_of_mem _ hx))
      cases hs : o.statusOf id with
      | none => rw [hs] at hid; simp at hid
      | some s =>
        unfold Orch.memFilterByStatus
        simp only [hs, hrest]
        unfold Orch.filterByStatus
        by_cases hc : filter.contains s = true
        · simp [List.filter_cons, hs]
        · simp [List.filter_cons, hs]
    · rintro ⟨x, hx, hn⟩
      unfold Orch.memFilterByStatus
      cases hs : o.statusOf id with
      | none => rfl
      | some s =>
        simp only
        rcases List.mem_cons.1 hx with rfl | hx
        · rw [hn] at hs; simp at hs
        · rw [ih2 ⟨x, hx, hn⟩]

example : ({} : Orch).memFilterByStatus ["ghost"] [.registered] = .error () ∧
    ({} : Orch).filterByStatus ["ghost"] [.registered] = [] := by decide



/-! ### history: append (memory) vs INSERT OR REPLACE under (invocation, instant, status) (SQLite) -/

def histKey (e : HistE) : String × Int × Status := (e.inv, e.ts, e.status)

private theorem addHistorySql_eq_of_fresh (s : SB) (e : HistE) (h : ∀ x ∈ s.hist, histKey x ≠ histKey e) :
    s.addHistorySql e = s.addHistory e := by
  unfold SB.addHistorySql SB.addHistory
  congr 1
  congr 1
  apply List.filter_eq_self.2
  intro x hx
  have := h x hx
  simp only [histKey, ne_eq, Prod.mk.injEq, not_and] at this
  simp only [Bool.not_eq_eq_eq_not, Bool.not_true, Bool.and_eq_false_imp, decide_eq_true_eq, decide_eq_false_iff_not, Bool.and_eq_true]
  rintro ⟨h1, h2⟩
  exact this h1 h2

/-- The two ways of storing history agree — same entries, same order — for every sequence of entries in
    which no invocation gets two entries with the same creation instant AND the same status (what a
    running clock with µs resolution gives); the stored history is then the full list of entries. -/
theorem history_mem_eq_sql_of_distinct_instants (es : List HistE) (hd : es.Pairwise (fun a b => histKey a ≠ histKey b)) :
    (es.foldl SB.addHistorySql {}).hist = es ∧ (es.foldl SB.addHistory {}).hist = es := by
  have gen : ∀ (es : List HistE) (s : SB), (s.hist ++ es).Pairwise (fun a b => histKey a ≠ histKey b) →
      (es.foldl SB.addHistorySql s).hist = s.hist ++ es ∧ (es.foldl SB.addHistory s).hist = s.hist ++ es := by
    intro es
    induction es with
    | nil => intro s _; simp
    | cons e rest ih =>
      intro s hp
      have hfresh : ∀ x ∈ s.hist, histKey x ≠ histKey e := by
        intro x hx
        have := List.pairwise_append.1 hp
        exact this.2.2 x hx e List.mem_cons_self
      simp only [List.foldl_cons]
      rw [addHistorySql_eq_of_fresh s e hfresh]
      have hp' : ((s.addHistory e).hist ++ rest).Pairwise (fun a b => histKey a ≠ histKey b) := by
        simpa [SB.addHistory, List.append_assoc] using hp
      obtain ⟨a, b⟩ := ih (s.addHistory e) hp'
      refine ⟨by rw [a]; simp [SB.addHistory], by rw [b]; simp [SB.addHistory]⟩
  simpa using gen es {} (by simpa using hd)

example :
    let e1 : HistE := { inv := "i", ts := 1, status := .registered, owner := none, runner := "ext" }
    let e2 : HistE := { inv := "i", ts := 2, status := .pending, owner := some "rA", runner := "rA" }
    let e3 : HistE := { inv := "j", ts := 1, status := .registered, owner := none, runner := "ext" }
    [e1, e2, e3].Pairwise (fun a b => histKey a ≠ histKey b) := by decide

/-- Without the premise the families differ (C16 finding `same instant`): two entries of one invocation
    with equal instant and status are two entries in memory and one row on SQLite. -/
theorem history_same_instant_diverges :
    let e1 : HistE := { inv := "i", ts := 1, status := .registered, owner := none, runner := "ext" }
    let e2 : HistE := { inv := "i", ts := 1, status := .registered, owner := none, runner := "rA" }
    ([e1, e2].foldl SB.addHistory {}).hist.length = 2 ∧ ([e1, e2].foldl SB.addHistorySql {}).hist.length = 1 := by decide

/-! ### purge -/

/-- `purge()` of a component puts its model back to the initial state: the orchestrator (records,
    indexes, retries, heartbeats, auto-purge marks, service windows, wait graph), the broker queue, the
    state backend (invocations, results, exceptions, history, workflow data, stored runner contexts —
    the per-app-object runner-context cache and the app's registration record are not backend data);
    `app.purge()` does all of it. -/
theorem purge_resets_every_component (T : Table) (w : World) :
    (Backends.step T w .orchPurge).1 = { w with orch := {}, ext := {}, bcMem := {}, bcSql := [] } ∧
    (Backends.step T w .brokerPurge).1 = { w with queue := [] } ∧
    (Backends.step T w .sbPurge).1 = { w with sb := { cache := w.sb.cache, appInfo := w.sb.appInfo } } ∧
    (Backends.step T w .appPurge).1 = { sb := { cache := w.sb.cache, appInfo := w.sb.appInfo } } := by
  refine ⟨rfl, rfl, rfl, rfl⟩

/-- after `app.purge()` every orchestrator / broker / state-backend query about invocations answers as
    on a fresh application -/
theorem purged_answers_like_fresh (T : Table) (w : World) (id task : String) (ss : List Status) (now to : Int)
    (limit : Int) (avail : String → Bool) :
    let p := (Backends.step T w .appPurge).1
    p.orch.get id = none ∧ p.orch.getRetries id = 0 ∧ p.orch.taskIds task = [] ∧ p.orch.cands none ss = [] ∧
    p.queue = [] ∧ p.sb.hasInv id = false ∧ p.sb.history id = [] ∧ p.sb.getResult id = none ∧
    p.orch.activeRunners now to none = [] ∧ p.ext.due now to = [] ∧
    Blocking.sqlBlocking p.bcSql limit avail = [] ∧ Blocking.memBlocking p.bcMem limit avail = [] := by
  refine ⟨rfl, rfl, rfl, rfl, rfl, rfl, rfl, rfl, rfl, rfl, ?_, ?_⟩
  · simp [Backends.step, orchPurged, Blocking.sqlBlocking, Blocking.sqlBlockingAll, dedup]
  · simp [Backends.step, orchPurged, Blocking.memBlocking, Blocking.scan]

/-! ### retries -/

/-- operations that may lower a retry counter: registration (sets it to 0 for a new id) and the ones
    that forget invocations -/
def Op.mayResetRetries : Op → Bool
  | .register .. | .autoPurge .. | .orchPurge | .appPurge => true
  | _ => false

private theorem setStatus_retries (T : Table) (o : Orch) (id : String) (req : Status) (rid : Option String) (now : Int) :
    (o.setStatus T id req rid now).1.retries = o.retries := by
  unfold Orch.setStatus
  split
  · rfl
  · split <;> rfl

private theorem getRetries_incr (o : Orch) (id x : String) : o.getRetries x ≤ (o.incrRetriesKnown id).getRetries x := by
  unfold Orch.incrRetriesKnown
  split
  · unfold Orch.incrRetries Orch.getRetries
    by_cases h : x = id
    · subst h; simp [AMap.get?_set_self]
    · simp [AMap.get?_set_other _ _ _ _ h]
  · exact Nat.le_refl _

/-- releasing waiters touches the two wait graphs only -/
theorem foldl_releaseBoth_orch (l : List String) (w : World) : (l.foldl releaseBoth w).orch = w.orch := by
  induction l generalizing w with
  | nil => rfl
  | cons x xs ih => simp only [List.foldl_cons]; rw [ih]; rfl

/-- **Retries never decrease** under any operation other than a registration / a purge, and
    `increment_invocation_retries` of a known invocation adds exactly one. -/
theorem retries_monotone (T : Table) (w : World) (op : Op) (h : Op.mayResetRetries op = false) (x : String) :
    w.orch.getRetries x ≤ (Backends.step T w op).1.orch.getRetries x ∧
    (∀ id, op = .incrRetries id → w.orch.recs.has id = true → (Backends.step T w op).1.orch.getRetries id = w.orch.getRetries id + 1) := by
  constructor
  · cases op
    case setStatus id req rid cls now =>
      simp only [Backends.step]
      have hr := setStatus_retries T w.orch id req (some rid) now
      generalize hres : w.orch.setStatus T id req (some rid) now = res at hr
      obtain ⟨o', e⟩ := res
      cases e with
      | error e => exact Nat.le_refl _
      | ok r =>
        simp only at hr
        by_cases hf : (T (some req)).isFinal = true
        · simp [hf, releaseBoth, Orch.getRetries, hr]
        · simp [hf, Orch.getRetries, hr]
    case incrRetries id => exact getRetries_incr w.orch id x
    case wait waiter ids =>
      simp only [Backends.step]
      split
      · split
        · rw [foldl_releaseBoth_orch]; exact Nat.le_refl _
        · exact Nat.le_refl _
      · exact Nat.le_refl _
    case retrieve =>
      simp only [Backends.step]
      split <;> exact Nat.le_refl _
    case heartbeat rids elig now =>
      simp only [Backends.step, Orch.getRetries]
      have : ∀ (rs : List String) (o : Orch), (o.heartbeat rs elig now).retries = o.retries := by
        intro rs o
        unfold Orch.heartbeat
        induction rs generalizing o with
        | nil => rfl
        | cons r rs ih =>
          simp only [List.foldl_cons]
          rw [ih]
          split <;> rfl
      rw [this]; exact Nat.le_refl _
    all_goals first
      | exact Nat.le_refl _
      | (simp [Op.mayResetRetries] at h)
  · rintro id rfl hk
    simp only [Backends.step, Orch.incrRetriesKnown, hk, if_true, Orch.incrRetries, Orch.getRetries, AMap.get?_set_self]
    rfl

example : ((Backends.step Gen.table (Backends.step Gen.table {} (.register [{ id := "i", info := { task := "t", call := "c", args := [] }, parent := none }] "e" "E" false 1)).1
    (.incrRetries "i")).1.orch.getRetries "i") = 1 := by decide



/-- **The algorithm pairs that differ between the two families are equal as functions of the abstract
    state** (summary; the last three are the theorems of C04, C09 and C08, re-exported):
    1. `get_existing_invocations`: index intersection = SQL joins (as lists);
    2. `get_invocation_ids_paginated`: Python slice = LIMIT/OFFSET for count-valued limit/offset;
    3. `filter_by_status`: per-id lookup = `IN` filter when every id is known;
    4. running-recovery scan: heartbeat set difference = LEFT JOIN (unique runner rows, truthy owners);
    5. `get_blocking_invocations`: maintained ready set = `NOT IN (waiters)` query — same set, same
       number under any limit — when `release_waiters` only follows statuses that are not runnable;
    6. the brokers: deque and `(created_at, rowid)`-ordered table both refine the FIFO queue under a
       non-decreasing clock, so they return the same answers. -/
theorem family_algorithms_agree :
    (∀ (o : Orch) task key statuses, o.existingMem task key statuses = o.existing task key statuses) ∧
    (∀ (o : Orch) task statuses (limit offset : Nat),
        o.memPage task statuses limit offset = o.sqlPage task statuses limit offset) ∧
    (∀ (o : Orch) filter ids, (∀ x ∈ ids, (o.statusOf x).isSome) →
        o.memFilterByStatus ids filter = .ok (o.filterByStatus ids filter)) ∧
    (∀ (o : Orch), o.hb.NodupKeys →
        (∀ p ∈ o.recs, p.2.status = .running → p.2.owner = none ∨ truthy p.2.owner = true) →
        ∀ now to, o.runningScanMem now to = o.runningScanSql now to) ∧
    (∀ (h : List (Blocking.Op String)) (avail : String → Bool) (limit : Int),
        (∀ x ∈ Blocking.released h, avail x = false) →
        (∀ x, x ∈ Blocking.memBlockingAll (Blocking.memRun h) avail ↔ x ∈ Blocking.sqlBlockingAll (Blocking.sqlRun h) avail) ∧
        (Blocking.memBlocking (Blocking.memRun h) limit avail).length = (Blocking.sqlBlocking (Blocking.sqlRun h) limit avail).length) ∧
    (∀ (k : Nat) (ops : List (Broker.TOp String)), (ops.flatMap Broker.TOp.stamps).Pairwise (· ≤ ·) →
        Broker.Mem.outs ({} : Broker.Mem String) (ops.map Broker.TOp.erase) =
          Broker.Sql.outs ({ rows := [], seq := k } : Broker.Sql String) ops) := by
  refine ⟨existingMem_eq_existing, ?_, ?_, ?_, ?_, ?_⟩
  · intro o task ss limit offset
    rw [(page_mem_eq_sql o task ss limit offset).1, (page_mem_eq_sql o task ss limit offset).2]
  · intro o filter ids h
    exact (mem_filter_by_status_eq_sql o filter ids).1 h
  · intro o hn hown now to
    exact C04.runningScanMem_eq_Sql o hn hown now to
  · intro h avail limit hprem
    exact C09.mem_blocking_eq_sql_blocking h avail limit hprem
  · intro k ops hclock
    obtain ⟨a, b, _, _⟩ := C08.broker_refines_queue k ops hclock
    rw [a, b]

/-! ### auto-purge -/

private theorem get?_erase_self {β : Type} (m : AMap String β) (k : String) : AMap.get? (AMap.erase m k) k = none := by
  induction m with
  | nil => rfl
  | cons p rest ih =>
    obtain ⟨k', v'⟩ := p
    by_cases h : k' = k
    · simp [AMap.erase, h] at ih ⊢; exact ih
    · simp [AMap.erase, h, AMap.get?] at ih ⊢; exact ih

private theorem get?_erase_other {β : Type} (m : AMap String β) (k k2 : String) (h : k2 ≠ k) :
    AMap.get? (AMap.erase m k) k2 = AMap.get? m k2 := by
  induction m with
  | nil => rfl
  | cons p rest ih =>
    obtain ⟨k', v'⟩ := p
    by_cases h1 : k' = k
    · subst h1
      have : ¬ k' = k2 := fun e => h e.symm
      simp [AMap.erase, AMap.get?, this] at ih ⊢; exact ih
    · by_cases h2 : k' = k2
      · subst h2
        simp [AMap.erase, AMap.get?, h]
      · simp [AMap.erase, h1, AMap.get?, h2] at ih ⊢; exact ih

private theorem purgeOne_get (w : World) (id x : String) :
    (purgeOne w id).orch.get x = if x = id then none else w.orch.get x := by
  unfold purgeOne releaseBoth Orch.forget Orch.get
  by_cases h : x = id
  · subst h; simp [get?_erase_self]
  · simp [h, get?_erase_other _ _ _ h]

/-- `auto_purge()`: every invocation whose mark is at least the retention old is forgotten by the
    orchestrator (status, retries, indexes), and no other invocation's record changes. -/
theorem auto_purge_spec (T : Table) (w : World) (now keep : Int) (x : String) :
    (x ∈ w.ext.due now keep → (Backends.step T w (.autoPurge now keep)).1.orch.get x = none) ∧
    (x ∉ w.ext.due now keep → (Backends.step T w (.autoPurge now keep)).1.orch.get x = w.orch.get x) := by
  simp only [Backends.step]
  have gen : ∀ (l : List String) (w : World),
      (x ∈ l → (l.foldl purgeOne w).orch.get x = none) ∧ (x ∉ l → (l.foldl purgeOne w).orch.get x = w.orch.get x) := by
    intro l
    induction l with
    | nil => intro w; simp
    | cons id rest ih =>
      intro w
      simp only [List.foldl_cons, List.mem_cons, not_or]
      obtain ⟨i1, i2⟩ := ih (purgeOne w id)
      constructor
      · rintro (rfl | hm)
        · by_cases hr : x ∈ rest
          · exact i1 hr
          · rw [i2 hr, purgeOne_get]; simp
        · exact i1 hm
      · rintro ⟨hne, hr⟩
        rw [i2 hr, purgeOne_get]; simp [hne]
  exact gen _ w

/-- a mark exactly `keep` old is due, one µs younger is not (the boundary the clock-controlled runs hit) -/
example : ({ purgeAt := [("a", 10), ("b", 11)] } : OrchExt).due 110 100 = ["a"] := by decide

/-! ### observational equivalence through the reference model -/

/-- an implementation of the backend contract: some state, the operations, the queries -/
structure Impl where
  σ : Type
  init : σ
  step : σ → Op → σ × String
  obs : σ → Query → String

def Impl.run (I : Impl) (s : I.σ) (ops : List Op) : I.σ := ops.foldl (fun s op => (I.step s op).1) s

def Impl.outs (I : Impl) : I.σ → List Op → List String
  | _, [] => []
  | s, op :: rest => (I.step s op).2 :: I.outs (I.step s op).1 rest

/-- `I` corresponds to the reference model: there is an abstraction of its state to the model's state
    that commutes with every operation, under which every answer is the model's answer.  (This is what
    the three-way differential run checks, operation by operation, for the in-memory and the SQLite stack.) -/
def Simulates (T : Table) (I : Impl) : Prop :=
  ∃ abs : I.σ → World, abs I.init = {} ∧
    (∀ s op, abs (I.step s op).1 = (Backends.step T (abs s) op).1 ∧ (I.step s op).2 = (Backends.step T (abs s) op).2) ∧
    (∀ s q, I.obs s q = observe T (abs s) q)

/-- the reference model as an implementation -/
def refImpl (T : Table) : Impl := { σ := World, init := {}, step := Backends.step T, obs := observe T }

private theorem sim_run (T : Table) (I : Impl) (abs : I.σ → World)
    (hstep : ∀ s op, abs (I.step s op).1 = (Backends.step T (abs s) op).1 ∧ (I.step s op).2 = (Backends.step T (abs s) op).2) :
    ∀ (ops : List Op) (s : I.σ), abs (I.run s ops) = Backends.run T (abs s) ops ∧ I.outs s ops = Backends.outs T (abs s) ops := by
  intro ops
  induction ops with
  | nil => intro s; exact ⟨rfl, rfl⟩
  | cons op rest ih =>
    intro s
    obtain ⟨a, b⟩ := ih (I.step s op).1
    obtain ⟨h1, h2⟩ := hstep s op
    constructor
    · show abs (I.run (I.step s op).1 rest) = Backends.run T (Backends.step T (abs s) op).1 rest
      rw [a, h1]
    · show (I.step s op).2 :: I.outs (I.step s op).1 rest = (Backends.step T (abs s) op).2 :: Backends.outs T (Backends.step T (abs s) op).1 rest
      rw [b, h1, h2]

/-- **Two implementations that each correspond to the reference model cannot be told apart**: on every
    sequence of operations they return the same answers, and after it every query returns the same
    answer — and both are the model's.  Every observation is a function of the abstract state: two
    histories that lead to the same model state are followed by the same answers to every query and
    every further operation. -/
theorem observations_deterministic (T : Table) :
    (∀ (I₁ I₂ : Impl), Simulates T I₁ → Simulates T I₂ → ∀ (ops : List Op) (q : Query),
        I₁.outs I₁.init ops = I₂.outs I₂.init ops ∧
        I₁.obs (I₁.run I₁.init ops) q = I₂.obs (I₂.run I₂.init ops) q ∧
        I₁.outs I₁.init ops = Backends.outs T {} ops) ∧
    (∀ (h₁ h₂ : List Op), Backends.run T {} h₁ = Backends.run T {} h₂ →
        (∀ q, observe T (Backends.run T {} h₁) q = observe T (Backends.run T {} h₂) q) ∧
        (∀ more, Backends.outs T (Backends.run T {} h₁) more = Backends.outs T (Backends.run T {} h₂) more)) := by
  constructor
  · rintro I₁ I₂ ⟨a₁, i₁, s₁, o₁⟩ ⟨a₂, i₂, s₂, o₂⟩ ops q
    obtain ⟨r₁, u₁⟩ := sim_run T I₁ a₁ s₁ ops I₁.init
    obtain ⟨r₂, u₂⟩ := sim_run T I₂ a₂ s₂ ops I₂.init
    rw [i₁] at r₁ u₁
    rw [i₂] at r₂ u₂
    refine ⟨by rw [u₁, u₂], by rw [o₁, o₂, r₁, r₂], u₁⟩
  · intro h₁ h₂ e
    rw [e]
    exact ⟨fun _ => rfl, fun _ => rfl⟩

/-- non-vacuity: the reference model, seen as an implementation, corresponds to itself -/
example (T : Table) : Simulates T (refImpl T) := ⟨id, rfl, fun _ _ => ⟨rfl, rfl⟩, fun _ _ => rfl⟩

/-- … and so does an implementation with a different state space (here: one that also counts operations) -/
def countingImpl (T : Table) : Impl :=
  { σ := World × Nat, init := ({}, 0),
    step := fun s op => (((Backends.step T s.1 op).1, s.2 + 1), (Backends.step T s.1 op).2),
    obs := fun s q => observe T s.1 q }

example (T : Table) : Simulates T (countingImpl T) := ⟨Prod.fst, rfl, fun _ _ => ⟨rfl, rfl⟩, fun _ _ => rfl⟩


end Pynenc.C16
