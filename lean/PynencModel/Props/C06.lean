import PynencModel.Model.KeyedClaims
import PynencModel.Model.Concurrency
import PynencModel.Props.C02
/-
  C06 — running concurrency control: never two RUNNING invocations with the same key.

  What is proved, and what is refuted:
  * `no_two_running_partial`: when the candidate check and the claim form one atomic step (one poller at a
    time — e.g. a single runner, or pollers serialised), in every reachable state at most one invocation per
    key is PENDING or RUNNING; in particular never two RUNNING.  All keys, ids, runners, histories.
  * `different_keys_independent`: the check of an invocation ignores invocations with other keys.
  * `two_pollers_break_it`: the real code checks and claims in separate steps; the executable model run
    through the two-poller interleaving ends with two same-key invocations RUNNING (known finding).
  * `blocked_outcome` / `blocked_retry_raises`: a blocked candidate becomes CONCURRENCY_CONTROLLED(_FINAL)
    from REGISTERED / REROUTED; from RETRY (and REROUTED with the final option) the table has no such edge
    and the poll raises (known finding).
  The full-strength statement (`NoTwoRunning` for *every* interleaving of the real, non-atomic steps) is
  false of the current code; it is kept below as `FullStatement`.
-/
namespace Pynenc.C06
open Pynenc Pynenc.Keyed Pynenc.C01

variable {K : Type}

/-- at most one PENDING-or-RUNNING invocation per key -/
def OneActive (s : Sys K) : Prop :=
  ∀ i j, i ≠ j → s.key i = s.key j → s.key i ≠ none → ¬ (active s i ∧ active s j)

/-- the property's invariant: no two RUNNING invocations with the same key -/
def NoTwoRunning (s : Sys K) : Prop :=
  ∀ i j ci cj, i ≠ j → s.key i = s.key j → s.key i ≠ none →
    s.recs i = some ci → s.recs j = some cj → ¬ (ci.status = .running ∧ cj.status = .running)

theorem oneActive_noTwoRunning (s : Sys K) (h : OneActive s) : NoTwoRunning s := by
  intro i j ci cj hne hk hkn hi hj ⟨h1, h2⟩
  exact h i j hne hk hkn ⟨⟨ci, hi, Or.inr h1⟩, ⟨cj, hj, Or.inr h2⟩⟩

private theorem edge_to_running' (s : Status) (h : edge Gen.table (some s) .running = true) : s = .pending := by
  cases s <;> first | rfl | (exact absurd h (by decide))

/-- RUNNING is only entered from PENDING (so becoming RUNNING never adds to the active set) -/
private theorem running_from_pending (c r : SRec) (rid : Option String)
    (h : step Gen.table (some c) .running rid = .ok r) : c.status = .pending := by
  have h' := (step_ok_iff Gen.table _ _ _ _).1 h
  exact edge_to_running' c.status (by simpa using h'.1)

private theorem ok_status (c r : SRec) (req : Status) (rid : Option String)
    (h : step Gen.table (some c) req rid = .ok r) : r.status = req := by
  have := ((step_ok_iff Gen.table _ _ _ _).1 h).2.2; rw [← this]

/-- S1. Every atomic step preserves "at most one active invocation per key". -/
theorem oneActive_step (s s' : Sys K) (h : OneActive s) (st : StepAtomic Gen.table s s') : OneActive s' := by
  cases st with
  | claim i rid c r hrec hcand hstep =>
    intro a b hab hk hkn ⟨ha, hb⟩
    simp only [active, upd] at ha hb
    by_cases ea : a = i
    · subst ea
      have eb : b ≠ a := fun e => hab e.symm
      simp only [eb, if_false] at hb
      exact hcand b eb hk.symm hkn hb
    · by_cases eb : b = i
      · subst eb
        simp only [ea, if_false] at ha
        exact hcand a ea hk (hk ▸ hkn) ha
      · simp only [ea, eb, if_false] at ha hb
        exact h a b hab hk hkn ⟨ha, hb⟩
  | other i req rid c r hrec hreq hstep =>
    intro a b hab hk hkn ⟨ha, hb⟩
    -- if `i` is active afterwards it was active before
    have hback : ∀ x, active { s with recs := upd s.recs i (some r) } x → active s x := by
      intro x hx
      simp only [active, upd] at hx
      by_cases ex : x = i
      · subst ex
        simp only [if_true] at hx
        obtain ⟨c', hc', hs'⟩ := hx
        injection hc' with hc'
        subst hc'
        have hrs := ok_status c r req rid hstep
        rcases hs' with h1 | h1
        · rw [hrs] at h1; exact absurd h1 hreq
        · rw [hrs] at h1; subst h1
          exact ⟨c, hrec, Or.inl (running_from_pending c r rid hstep)⟩
      · simp only [ex, if_false] at hx; exact hx
    exact h a b hab hk hkn ⟨hback a ha, hback b hb⟩
  | register i k rid hnone =>
    intro a b hab hk hkn ⟨ha, hb⟩
    simp only [active, upd] at ha hb hk hkn
    have hna : a ≠ i := by
      intro e; subst e; simp only [if_true] at ha
      obtain ⟨c', hc', hs'⟩ := ha; injection hc' with hc'; subst hc'; rcases hs' with h1 | h1 <;> simp at h1
    have hnb : b ≠ i := by
      intro e; subst e; simp only [if_true] at hb
      obtain ⟨c', hc', hs'⟩ := hb; injection hc' with hc'; subst hc'; rcases hs' with h1 | h1 <;> simp at h1
    simp only [hna, hnb, if_false] at ha hb hk hkn
    exact h a b hab hk hkn ⟨ha, hb⟩

/-- S2 (`no_two_running_partial`). With an atomic check-and-claim — any number of runners, keys,
    invocations, submissions at any time, any other status traffic — no reachable state has two RUNNING
    invocations with the same key (nor two PENDING-or-RUNNING ones). -/
theorem no_two_running_partial (s0 s : Sys K) (h0 : OneActive s0) (hr : Reach Gen.table s0 s) :
    OneActive s ∧ NoTwoRunning s := by
  have : OneActive s := by
    induction hr with
    | refl => exact h0
    | step s s' _ st ih => exact oneActive_step s s' ih st
  exact ⟨this, oneActive_noTwoRunning s this⟩

/-- S3 (`different_keys_independent`). Whether `i` is a candidate does not depend on the status of
    any invocation with a different key: changing those records arbitrarily leaves the check unchanged. -/
theorem different_keys_independent (s : Sys K) (i : String) (recs' : String → Option SRec)
    (hsame : ∀ j, s.key j = s.key i → recs' j = s.recs j) :
    Candidate s i ↔ Candidate { s with recs := recs' } i := by
  unfold Candidate active
  constructor
  · intro h j hj hk hkn; simp only; rw [hsame j hk]; exact h j hj hk hkn
  · intro h j hj hk hkn; have := h j hj hk hkn; simp only at this; rw [hsame j hk] at this; exact this

/-- The full-strength statement of the property for the *real* step granularity (candidate check and
    claim are separate steps of `get_additional_invocations_to_run`; authorisation check and RUNNING
    are separate steps of `DistributedInvocation.run`): from a state with nothing active, no
    interleaving reaches two RUNNING invocations with one key.  FALSE of the current code. -/
def FullStatement : Prop :=
  ∀ (s0 s : SysS Unit), (∀ i c, s0.recs i = some c → c.status = .registered) →
    (∀ i, s0.checked i = false ∧ s0.authed i = false) →
    ReachSplit Gen.table s0 s → NoTwoRunning s.base

def w0 : SysS Unit :=
  { recs := fun i => if i = "a" ∨ i = "b" then some ⟨.registered, none⟩ else none,
    key := fun _ => some (), checked := fun _ => false, authed := fun _ => false }

/-- S2' (refutation of the full statement, known finding): check a · check b · claim a · claim b ·
    auth a · auth b · start a · start b — both checks of each kind pass before either action. -/
theorem full_statement_refuted : ¬ FullStatement := by
  intro h
  let s1 : SysS Unit := { w0 with checked := upd w0.checked "a" true }
  let s2 : SysS Unit := { s1 with checked := upd s1.checked "b" true }
  let s3 : SysS Unit := { s2 with recs := upd s2.recs "a" (some ⟨.pending, some "r1"⟩), checked := upd s2.checked "a" false }
  let s4 : SysS Unit := { s3 with recs := upd s3.recs "b" (some ⟨.pending, some "r2"⟩), checked := upd s3.checked "b" false }
  let s5 : SysS Unit := { s4 with authed := upd s4.authed "a" true }
  let s6 : SysS Unit := { s5 with authed := upd s5.authed "b" true }
  let s7 : SysS Unit := { s6 with recs := upd s6.recs "a" (some ⟨.running, some "r1"⟩), authed := upd s6.authed "a" false }
  let s8 : SysS Unit := { s7 with recs := upd s7.recs "b" (some ⟨.running, some "r2"⟩), authed := upd s7.authed "b" false }
  have notActive0 : ∀ j, ¬ active w0.base j := by
    intro j ⟨c, hc, hs⟩
    simp only [w0, SysS.base] at hc
    split at hc
    · injection hc with hc; subst hc; rcases hs with h1 | h1 <;> simp at h1
    · exact absurd hc (by simp)
  have r1 : ReachSplit Gen.table w0 s1 := .step _ _ .refl (.check w0 "a" (fun j _ _ _ => notActive0 j))
  have r2 : ReachSplit Gen.table w0 s2 := .step _ _ r1 (.check s1 "b" (fun j _ _ _ => notActive0 j))
  have r3 : ReachSplit Gen.table w0 s3 := .step _ _ r2 (.claim s2 "a" (some "r1") ⟨.registered, none⟩ ⟨.pending, some "r1"⟩ rfl rfl rfl)
  have r4 : ReachSplit Gen.table w0 s4 := .step _ _ r3 (.claim s3 "b" (some "r2") ⟨.registered, none⟩ ⟨.pending, some "r2"⟩ rfl rfl rfl)
  have noRun4 : ∀ j, ¬ ∃ c, s4.recs j = some c ∧ c.status = .running := by
    intro j ⟨c, hc, hs⟩
    simp only [s4, s3, s2, s1, w0, upd] at hc
    split at hc
    · injection hc with hc; subst hc; simp at hs
    · split at hc
      · injection hc with hc; subst hc; simp at hs
      · split at hc
        · injection hc with hc; subst hc; simp at hs
        · exact absurd hc (by simp)
  have r5 : ReachSplit Gen.table w0 s5 := .step _ _ r4 (.auth s4 "a" (fun j _ _ _ => noRun4 j))
  have r6 : ReachSplit Gen.table w0 s6 := .step _ _ r5 (.auth s5 "b" (fun j _ _ _ => noRun4 j))
  have r7 : ReachSplit Gen.table w0 s7 := .step _ _ r6 (.start s6 "a" (some "r1") ⟨.pending, some "r1"⟩ ⟨.running, some "r1"⟩ rfl rfl rfl)
  have r8 : ReachSplit Gen.table w0 s8 := .step _ _ r7 (.start s7 "b" (some "r2") ⟨.pending, some "r2"⟩ ⟨.running, some "r2"⟩ rfl rfl rfl)
  have h0 : ∀ i c, w0.recs i = some c → c.status = .registered := by
    intro i c hc
    simp only [w0] at hc
    split at hc
    · injection hc with hc; subst hc; rfl
    · exact absurd hc (by simp)
  have := h w0 s8 h0 (fun _ => ⟨rfl, rfl⟩) r8 "a" "b" ⟨.running, some "r1"⟩ ⟨.running, some "r2"⟩ (by decide) rfl (by simp [s8, s7, s6, s5, s4, s3, s2, s1, w0, SysS.base]) rfl rfl
  exact this ⟨rfl, rfl⟩

/-! ### refutation on the executable model: two pollers, check-then-act -/

open CC in
/-- Two same-key invocations `a`, `b` (task with running concurrency TASK), two runners.  Both
    candidate checks run before either claim; both authorisation checks run before either RUNNING
    transition — each check is individually correct, the interleaving is what the real code allows.
    Both end RUNNING. -/
theorem two_pollers_break_it :
    let tc : TaskConf := { runMode := .task }
    let s0 : Sys := (routeCall (routeCall {} tc "t" "c1" [] "a" (some "cl") 0).1 tc "t" "c2" [] "b" (some "cl") 0).1
    let infA : InvInfo := { task := "t", call := "c1", args := [] }
    let infB : InvInfo := { task := "t", call := "c2", args := [] }
    -- both candidate checks pass on the same state
    authorized s0.orch tc infA [.pending, .running] = true ∧ authorized s0.orch tc infB [.pending, .running] = true ∧
    -- both claims are then accepted
    (let o1 := (s0.orch.setStatus Gen.table "a" .pending (some "r1") 1).1
     let o2 := (o1.setStatus Gen.table "b" .pending (some "r2") 1).1
     -- both authorisation checks (nothing RUNNING yet) pass on the same state
     authorized o2 tc infA [.running] = true ∧ authorized o2 tc infB [.running] = true ∧
     (let o3 := (o2.setStatus Gen.table "a" .running (some "r1") 2).1
      let o4 := (o3.setStatus Gen.table "b" .running (some "r2") 2).1
      o4.statusOf "a" = some .running ∧ o4.statusOf "b" = some .running)) := by
  decide

/-! ### what happens to a blocked candidate -/

/-- S4 (`blocked_outcome`). From REGISTERED and REROUTED a blocked candidate can be parked
    (CONCURRENCY_CONTROLLED, then REROUTED and re-queued); from REGISTERED it can be ended
    (CONCURRENCY_CONTROLLED_FINAL). -/
theorem blocked_outcome :
    edge Gen.table (some .registered) .concurrencyControlled = true ∧
    edge Gen.table (some .rerouted) .concurrencyControlled = true ∧
    edge Gen.table (some .registered) .concurrencyControlledFinal = true ∧
    edge Gen.table (some .concurrencyControlled) .rerouted = true ∧
    edge Gen.table (some .rerouted) .pending = true := by decide

/-- S5 (refutation, known finding). A blocked candidate that is awaiting a retry (RETRY), or that was
    re-queued (REROUTED) for a task with the "final" option, cannot be parked or ended: the table has no
    such edge, so the poll's status request raises — "without the poll failing" does not hold there. -/
theorem blocked_retry_raises :
    edge Gen.table (some .retry) .concurrencyControlled = false ∧
    edge Gen.table (some .retry) .concurrencyControlledFinal = false ∧
    edge Gen.table (some .rerouted) .concurrencyControlledFinal = false := by decide

open CC in
/-- the same on the executable poll: TASK concurrency, `a` RUNNING, `b` awaiting a retry and queued:
    the poll pops `b` and raises; `b` stays RETRY and is no longer queued. -/
theorem poll_raises_on_blocked_retry :
    let tc : TaskConf := { runMode := .task }
    let s0 : Sys := (routeCall (routeCall {} tc "t" "c1" [] "a" (some "cl") 0).1 tc "t" "c2" [] "b" (some "cl") 0).1
    let o1 := (s0.orch.setStatus Gen.table "a" .pending (some "r1") 1).1
    let o2 := (o1.setStatus Gen.table "a" .running (some "r1") 1).1
    let o3 : Orch := { o2 with recs := o2.recs.set "b" ⟨.retry, none, 1⟩ }
    let res := poll Gen.table (fun _ => tc) { orch := o3, queue := ["b"] } 1 (some "r2") 2
    res.2 = .raised [] ∧ res.1.queue = [] ∧ res.1.orch.statusOf "b" = some .retry := by
  decide

open CC in
/-- non-vacuity of the positive part: one poller, three same-key submissions (single path): one is
    claimed, the others are parked and re-queued, none is lost, the poll returns normally. -/
example :
    let tc : TaskConf := { runMode := .arguments }
    let s1 := (routeCall {} tc "t" "c" [("x", "1")] "a" (some "cl") 0).1
    let s2 := (routeCall s1 tc "t" "c" [("x", "1")] "b" (some "cl") 0).1
    let s3 := (routeCall s2 tc "t" "c" [("x", "1")] "c" (some "cl") 0).1
    let res := poll Gen.table (fun _ => tc) s3 3 (some "r1") 1
    res.2 = .ok ["a"] ∧ res.1.queue = ["b", "c"] ∧
    res.1.orch.statusOf "b" = some .rerouted ∧ res.1.orch.statusOf "c" = some .rerouted := by
  decide

open CC in
/-- the claim path of awaited invocations is an extension: without blocking candidates `get_invocations_to_run` is the
    queue poll of the theorems above -/
theorem pollB_nil (T : Table) (conf : String → TaskConf) (s : Sys) (n : Nat) (rid : Option String) (now : Int) :
    pollB T conf s n rid now [] = poll T conf s n rid now := by
  simp only [pollB, poll, blockingLoop, Bool.not_true, Bool.false_eq_true, if_false, List.length_nil, Nat.sub_zero]
  rfl

open CC in
/-- **One poll never hands out two awaited invocations with one key** (the model's run of the scenario of the
    `awaited_same_key_probe`): a, b (same arguments) and c are all reported as blocking; the poll claims a, skips b — its
    status and its message stay — and claims c. -/
theorem awaited_same_key_claimed_once :
    let tc : TaskConf := { runMode := .arguments, rerouteOnCC := true }
    let s1 := (routeCall {} tc "t" "c1" [("x", "1")] "a" (some "cl") 0).1
    let s2 := (routeCall s1 tc "t" "c2" [("x", "1")] "b" (some "cl") 0).1
    let s3 := (routeCall s2 tc "t" "c3" [("x", "2")] "c" (some "cl") 0).1
    let res := pollB Gen.table (fun _ => tc) s3 4 (some "r1") 1 ["a", "b", "c"]
    res.2 = .ok ["a", "c"] ∧ res.1.orch.statusOf "b" = some .rerouted := by
  decide

end Pynenc.C06
