/-
  C12, tie of the arithmetic to the source: `Gen/Slot.lean` is `calculate_time_slot` and `is_runner_in_time_slot` re-expressed from
  the Python AST on every run (harness/translate/slot.py); it is the hand-written model definitionally, so every theorem of
  Props/C12.lean is a theorem about what the source says now.  The history block of `calculate_time_slot` assigns nothing.
-/
import PynencModel.Props.C12
import PynencModel.Gen.Slot

namespace Pynenc.C12G
open Pynenc Pynenc.AS Pynenc.C12

/-- the translated functions are the model (by unfolding: the same operations in the same order, `fl` after each float operation) -/
theorem gen_slot_is_the_model (fl : Rat → Rat) (imin mmin : Rat) (n p : Nat) :
    Gen.Slot.translated = true ∧ Gen.Slot.historyAssigns = [] ∧
    Gen.Slot.slotStart fl imin mmin n p = slotStart fl imin n p ∧
    Gen.Slot.slotEnd fl imin mmin n p = slotEnd fl imin mmin n p ∧
    ∀ t s e, Gen.Slot.inSlot fl t imin s e = (decide (s ≤ fmod t (interval fl imin)) && decide (fmod t (interval fl imin) < e)) :=
  ⟨rfl, rfl, rfl, rfl, fun _ _ _ => rfl⟩

/-- the check the source performs for position `p`: `is_runner_in_time_slot(t, imin, *calculate_time_slot(p, n, imin, mmin))` -/
def authorisedAt (fl : Rat → Rat) (imin mmin : Rat) (n p : Nat) (t : Rat) : Bool :=
  Gen.Slot.inSlot fl t imin (Gen.Slot.slotStart fl imin mmin n p) (Gen.Slot.slotEnd fl imin mmin n p)

theorem authorisedAt_eq_inSlot (fl : Rat → Rat) (imin mmin : Rat) (n p : Nat) (t : Rat) :
    authorisedAt fl imin mmin n p t = inSlot fl imin mmin n p t := rfl

/-- C12 stated on the TRANSLATED source: for every rounding function that is monotone, idempotent and fixes 0, two different
    positions are never inside their windows at the same instant. -/
theorem translated_source_excludes {fl : Rat → Rat} (h : FlOK fl) {imin mmin : Rat} {n : Nat} (hi : 0 ≤ imin) (hm : 0 ≤ mmin)
    (hfb : HalfSlotOK fl imin n) {p q : Nat} (hne : p ≠ q) (t : Rat) :
    ¬ (authorisedAt fl imin mmin n p t = true ∧ authorisedAt fl imin mmin n q t = true) := by
  rw [authorisedAt_eq_inSlot, authorisedAt_eq_inSlot]
  rcases Nat.lt_or_gt_of_ne hne with hlt | hlt
  · exact mutual_exclusion_fl h hi hm hfb hlt t
  · intro hh; exact mutual_exclusion_fl h hi hm hfb hlt t ⟨hh.2, hh.1⟩

/-- non-vacuity: exact arithmetic, three runners, 5 min, margin 1 min: position 1 is authorised at t = 120 s, position 2 is not -/
example : authorisedAt id 5 1 3 1 120 = true ∧ authorisedAt id 5 1 3 2 120 = false := by decide +kernel

end Pynenc.C12G
