import PynencModel.Model.Crash
import PynencModel.Gen.StatusTable
import PynencModel.Gen.Programs
/-
  C03 — no accepted invocation is lost when a process dies at any step.

  The crash-point table is a THEOREM about the effect programs traced from the real code on every run
  (Gen/Programs.lean): for every lifecycle operation and every point between two of its backend effects, the
  invocation is either still recoverable without its holder (`true`) or it is not (`false`).  The `false` entries are
  genuine, recorded findings of the current tree (pop-before-PENDING, RETRY / CONCURRENCY_CONTROLLED / KILLED /
  *_RECOVERY / REROUTED written but not yet queued: only PENDING and RUNNING are scanned by recovery); every entry is
  replayed on the real code by the crash injector of harness/props/c03.py.  Any reordering of effects that opens a
  new window changes the table and breaks these theorems.
-/
namespace Pynenc.C03
open Pynenc Pynenc.Crash

def queuedRegistered : InvState := ⟨some .registered, 1⟩
def claimed : InvState := ⟨some .pending, 0⟩
def running : InvState := ⟨some .running, 0⟩

/-- K1 (crash-point table, runner claiming): `pop · →PENDING`.  After the pop and before PENDING the invocation
    is in an available status with no message: NOT recoverable (finding). -/
theorem table_pollClaim :
    relevant Gen.Programs.pollClaimP = [("pop", ""), ("transition", "pending")] ∧
    crashTable Gen.table queuedRegistered (relevant Gen.Programs.pollClaimP) = [true, false, true] := by decide

/-- K2 (worker, success / failure): every point is recoverable — PENDING and RUNNING are scanned, finals are final.
    A crash after the outcome was stored but before the final status leaves the invocation RUNNING: it is recovered
    and the body runs again (at least once, not exactly once). -/
theorem table_runOk :
    relevant Gen.Programs.runOkP = [("transition", "running"), ("transition", "success")] ∧
    crashTable Gen.table claimed (relevant Gen.Programs.runOkP) = [true, true, true] ∧
    relevant Gen.Programs.runFailP = [("transition", "running"), ("transition", "failed")] ∧
    crashTable Gen.table claimed (relevant Gen.Programs.runFailP) = [true, true, true] := by decide

/-- K3 (worker, retry): `→RUNNING · →RETRY · push`.  RETRY written but not yet re-queued: NOT recoverable (finding). -/
theorem table_runRetry :
    relevant Gen.Programs.runRetryP = [("transition", "running"), ("transition", "retry"), ("push", "")] ∧
    crashTable Gen.table claimed (relevant Gen.Programs.runRetryP) = [true, true, false, true] := by decide

/-- K4 (kill-and-reroute on stop): `→KILLED · →REROUTED · push`: two unprotected points (findings). -/
theorem table_killReroute :
    relevant Gen.Programs.killRerouteP = [("transition", "killed"), ("transition", "rerouted"), ("push", "")] ∧
    crashTable Gen.table running (relevant Gen.Programs.killRerouteP) = [true, false, false, true] := by decide

/-- K5 (pending recovery task; the running recovery task has the same shape): `→*_RECOVERY · →REROUTED · push`:
    two unprotected points (findings). -/
theorem table_recoverPending :
    relevant Gen.Programs.recoverPendingP = [("transition", "pending_recovery"), ("transition", "rerouted"), ("push", "")] ∧
    crashTable Gen.table claimed (relevant Gen.Programs.recoverPendingP) = [true, false, false, true] := by decide

/-- K6 (client, single and batch): the caller has the invocation back only after the whole program ran; at that
    point the invocation is REGISTERED and queued (recoverable); the argument-index write of the single path comes
    after the push. -/
theorem table_client :
    relevant Gen.Programs.clientSingleP = [("register", ""), ("push", "")] ∧
    (crashTable Gen.table ⟨none, 0⟩ (relevant Gen.Programs.clientSingleP)).getLast? = some true ∧
    relevant Gen.Programs.clientSingleCCP = [("register", ""), ("push", "")] ∧
    Gen.Programs.clientSingleCCP.getLast? = some ("index_args", "") ∧
    relevant Gen.Programs.clientBatchP = [("register", ""), ("push", ""), ("push", "")] := by decide

/-- K7. Every traced operation, run to completion without a crash, leaves the invocation recoverable
    (the fault-free half: the invariant holds again at the end of every operation). -/
theorem operations_end_recoverable :
    (crashTable Gen.table queuedRegistered (relevant Gen.Programs.pollClaimP)).getLast? = some true ∧
    (crashTable Gen.table claimed (relevant Gen.Programs.runOkP)).getLast? = some true ∧
    (crashTable Gen.table claimed (relevant Gen.Programs.runFailP)).getLast? = some true ∧
    (crashTable Gen.table claimed (relevant Gen.Programs.runRetryP)).getLast? = some true ∧
    (crashTable Gen.table running (relevant Gen.Programs.killRerouteP)).getLast? = some true ∧
    (crashTable Gen.table claimed (relevant Gen.Programs.recoverPendingP)).getLast? = some true := by decide

/-- K8 (`recoverable_leads_to_final`). From every recoverable, holder-less state of an invocation — any status, any
    number of queued copies — recovery and a surviving runner can drive it to a final status (existence of the
    completing run; that it is eventually taken needs fair scheduling, a live runner and body termination). -/
theorem recoverable_leads_to_final (s : InvState) (h : protectedState Gen.table s = true) :
    ∃ f, DriveStar Gen.table s f ∧ ∃ st, f.status = some st ∧ (Gen.table (some st)).isFinal = true := by
  obtain ⟨st, q⟩ := s
  cases st with
  | none => simp [protectedState] at h
  | some st =>
    have fin : ∀ q', ∃ f, DriveStar Gen.table ⟨some .pending, q'⟩ f ∧ ∃ st, f.status = some st ∧ (Gen.table (some st)).isFinal = true :=
      fun q' => ⟨⟨some .success, q'⟩, .step _ _ _ (.start q') (.step _ _ _ (.succeed q') (.refl _)), .success, rfl, rfl⟩
    cases st
    case success => exact ⟨_, .refl _, .success, rfl, rfl⟩
    case failed => exact ⟨_, .refl _, .failed, rfl, rfl⟩
    case concurrencyControlledFinal => exact ⟨_, .refl _, .concurrencyControlledFinal, rfl, rfl⟩
    case pending => exact fin q
    case running => exact ⟨⟨some .success, q⟩, .step _ _ _ (.succeed q) (.refl _), .success, rfl, rfl⟩
    case registered =>
      cases q with
      | zero => simp [protectedState, Gen.table] at h
      | succ q' =>
        obtain ⟨f, hf, hfin⟩ := fin q'
        exact ⟨f, .step _ _ _ (.claim .registered q' rfl (by decide)) hf, hfin⟩
    case rerouted =>
      cases q with
      | zero => simp [protectedState, Gen.table] at h
      | succ q' =>
        obtain ⟨f, hf, hfin⟩ := fin q'
        exact ⟨f, .step _ _ _ (.claim .rerouted q' rfl (by decide)) hf, hfin⟩
    case retry =>
      cases q with
      | zero => simp [protectedState, Gen.table] at h
      | succ q' =>
        obtain ⟨f, hf, hfin⟩ := fin q'
        exact ⟨f, .step _ _ _ (.claim .retry q' rfl (by decide)) hf, hfin⟩
    all_goals simp [protectedState, Gen.table] at h

/-- K9. Conversely, the states the crash tables mark `false` are exactly the ones no recovery step applies to:
    a non-final status that is neither PENDING nor RUNNING, with no queued copy (or not available). -/
theorem unprotected_is_stuck (s : InvState) (h : protectedState Gen.table s = false) (s' : InvState) :
    ¬ Drive Gen.table s s' := by
  intro hd
  cases hd with
  | claim st q ha he => simp [protectedState, ha] at h
  | start q => simp [protectedState] at h
  | succeed q => simp [protectedState] at h
  | recoverPending q => simp [protectedState] at h
  | recoverRunning q => simp [protectedState] at h

end Pynenc.C03
