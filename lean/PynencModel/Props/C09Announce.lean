import PynencModel.Model.Announce
import PynencModel.Gen.StatusTable
import PynencModel.Gen.Programs
/-
  C09, "when an invocation finishes, nothing is recorded as waiting on it any more" — against the one schedule family the
  wait-graph theorems of Props/C09.lean cannot see, because it is made of TWO callers of the graph: the reader's
  check-then-announce and the finisher's status-then-release.  All interleavings, any number of other announcers.
-/
namespace Pynenc.C09A
open Pynenc Pynenc.Announce

/-- invariant of the repaired code -/
def Inv (s : S) : Prop :=
  -- the finisher has written the final status from its first step on, and only it does
  (s.final = true ↔ s.fpc ≠ 0) ∧
  -- a recorded edge is still going to be deleted: by the finisher, or by the reader's own re-check
  (s.edge = true → s.fpc ≠ 2 ∨ s.rpc = 2 ∨ s.rpc = 3) ∧
  -- the reader only reaches its release step when the invocation is final
  (s.rpc = 3 → s.final = true) ∧
  -- the wait is TRACKED: while the reader waits for an open sub-task its edge is recorded
  (s.final = false → (s.rpc = 2 ∨ s.rpc = 4) → s.edge = true) ∧
  (s.rpc ≤ 5 ∧ s.fpc ≤ 2)

theorem inv_init : Inv init := by simp [Inv, init]

theorem inv_step (s s' : S) (h : Inv s) (st : Step .repaired s s') : Inv s' := by
  obtain ⟨h1, h2, h3, h4, h5, h6⟩ := h
  obtain ⟨f, e, r, p⟩ := s
  simp only at h1 h2 h3 h4 h5 h6
  cases st with
  | reader hr =>
    unfold readerStep at hr
    simp only at hr
    split at hr <;> simp at hr <;> subst hr <;> simp only [Inv] <;>
      (cases f <;> cases e <;> simp_all <;> omega)
  | finisher hf =>
    unfold finisherStep at hf
    simp only at hf
    split at hf <;> simp at hf <;> subst hf <;> simp only [Inv] <;>
      (cases f <;> cases e <;> simp_all <;> omega)
  | other ho =>
    unfold otherStep at ho
    simp only at ho
    split at ho <;> simp at ho
    subst ho
    simp only [Inv]
    cases f <;> cases e <;> simp_all <;> omega

theorem inv_reach (s : S) (hr : Reach .repaired init s) : Inv s := by
  induction hr with
  | refl => exact inv_init
  | step s s' _ st ih => exact inv_step s s' ih st

/-- **No stale edge, any schedule**: once the finisher is through and the reader is past its re-check (waiting or done),
    nothing is recorded as waiting on the finished invocation. -/
theorem repaired_no_stale_edge (s : S) (hr : Reach .repaired init s) (hf : s.fpc = 2) (hrd : s.rpc = 4 ∨ s.rpc = 5) :
    s.edge = false := by
  obtain ⟨_, h2, _, _, _⟩ := inv_reach s hr
  cases he : s.edge with
  | false => rfl
  | true => rcases h2 he with h | h | h <;> omega

/-- **…and the wait is tracked while it lasts**: a reader in its wait loop for an open sub-task has its edge recorded
    (so the sub-task is reported as blocking: `blocking_spec`). -/
theorem repaired_tracks_open_wait (s : S) (hr : Reach .repaired init s) (hw : s.rpc = 4) (ho : s.final = false) :
    s.edge = true :=
  (inv_reach s hr).2.2.2.1 ho (Or.inr hw)

/-- **the announcement alone leaves it**: check (open) · finisher writes SUCCESS · finisher releases (nothing there) ·
    reader records · reader's loop sees SUCCESS.  Both done, the edge stands for ever. -/
theorem announce_only_leaves_stale_edge :
    ∃ s, Reach .announceOnly init s ∧ s.fpc = 2 ∧ s.rpc = 5 ∧ s.edge = true := by
  refine ⟨{ final := true, edge := true, rpc := 5, fpc := 2 }, ?_, rfl, rfl, rfl⟩
  refine .step _ _ (.step _ _ (.step _ _ (.step _ _ (.step _ _ .refl
    (.reader _ { final := false, edge := false, rpc := 1, fpc := 0 } rfl))
    (.finisher _ { final := true, edge := false, rpc := 1, fpc := 1 } rfl))
    (.finisher _ { final := true, edge := false, rpc := 1, fpc := 2 } rfl))
    (.reader _ { final := true, edge := true, rpc := 4, fpc := 2 } rfl))
    (.reader _ _ rfl)

/-- tie to the code (traced effect programs of the real orchestrator, regenerated on every run): an announcement records,
    looks at the awaited ids' statuses and releases exactly when it found one final; a run that ends in a final status
    writes that status BEFORE it releases the waiters. -/
theorem programs_follow_the_model :
    Gen.Programs.announcePendingP = [("wait", ""), ("final_check", "0")] ∧
    Gen.Programs.announceFinishedP = [("wait", ""), ("final_check", "1"), ("release", "")] ∧
    (∀ prog ∈ [Gen.Programs.runOkP, Gen.Programs.runFailP],
      ∃ st, prog.filter (fun e => (e.1 == "transition" && e.2 != "running") || e.1 == "release")
              = [("transition", st), ("release", "")] ∧ st ∈ ["success", "failed"]) ∧
    (Gen.table (some .success)).isFinal = true ∧ (Gen.table (some .failed)).isFinal = true := by
  refine ⟨by decide, by decide, ?_, by decide, by decide⟩
  intro prog hp
  simp only [List.mem_cons, List.mem_nil_iff, or_false] at hp
  rcases hp with rfl | rfl
  · exact ⟨"success", by decide, by simp⟩
  · exact ⟨"failed", by decide, by simp⟩

/-- non-vacuity: a schedule in which the reader really waits (edge recorded while the sub-task is open) and ends clean -/
example : Reach .repaired init { final := true, edge := false, rpc := 5, fpc := 2 } :=
  .step _ _ (.step _ _ (.step _ _ (.step _ _ (.step _ _ (.step _ _ .refl
    (.reader _ { final := false, edge := false, rpc := 1, fpc := 0 } rfl))
    (.reader _ { final := false, edge := true, rpc := 2, fpc := 0 } rfl))
    (.reader _ { final := false, edge := true, rpc := 4, fpc := 0 } rfl))
    (.finisher _ { final := true, edge := true, rpc := 4, fpc := 1 } rfl))
    (.finisher _ { final := true, edge := false, rpc := 4, fpc := 2 } rfl))
    (.reader _ _ rfl)

end Pynenc.C09A
