/-
  C03, fault-free interleavings of a lazily consumed poll with the re-queues of what it hands out.  Tie to the source:
  `Gen/PollSkip.lean` (translate/pollskip.py), regenerated on every run.
-/
import PynencModel.Model.LazyPoll
import PynencModel.Gen.PollSkip

namespace Pynenc.C03L
open Pynenc.LazyPoll

theorem lazy_inv_step (s s' : S) (h1 : s.skip = false) (h2 : Safe s) (hs : Step .code s s') : s'.skip = false ∧ Safe s' := by
  unfold Safe at *
  cases hs with
  | push hp => exact ⟨h1, fun h => by have := h2 h; simp; omega⟩
  | pollStart => exact ⟨rfl, h2⟩
  | popSkipped _ _ hk => simp [h1] at hk
  | popClaim => exact ⟨rfl, fun h => by simp at h⟩
  | popDropped _ _ _ hn => exact ⟨h1, fun h => (hn h).elim⟩
  | pollEnd => exact ⟨rfl, h2⟩
  | requeue => exact ⟨h1, fun _ => by simp; omega⟩
  | finish => exact ⟨h1, fun h => by simp at h⟩

/-- C03, fault-free part: however the pops of a lazily consumed poll interleave with the re-queues of what it handed out, an
    invocation nobody awaits is never available without a message (queued or due). -/
theorem lazy_poll_never_strands {s : S} (h : Reach .code s) : Safe s := by
  have : s.skip = false ∧ Safe s := by
    induction h with
    | init => exact ⟨rfl, fun _ => by simp [init]⟩
    | step s s' _ hs ih => exact lazy_inv_step s s' ih.1 ih.2 hs
  exact this.2

/-- adding what the queue part hands out to the skip set strands it: claimed, re-queued while the poll goes on, its new message
    popped and skipped -/
theorem marking_claimed_ids_strands_them :
    ∃ s, Reach .markClaimed s ∧ s.status = .avail ∧ s.msgs = 0 ∧ s.pend = 0 := by
  refine ⟨{ status := .avail, msgs := 0, pend := 0, polling := true, skip := true }, ?_, rfl, rfl, rfl⟩
  have r1 : Reach .markClaimed { status := .avail, msgs := 1, pend := 0, polling := false, skip := false } :=
    .step _ _ .init (.push _ (by decide))
  have r2 := Reach.step _ _ r1 (.pollStart _ rfl)
  have r3 := Reach.step _ _ r2 (.popClaim _ rfl (by decide) rfl rfl)
  have r4 := Reach.step _ _ r3 (.requeue _ rfl)
  have r5 := Reach.step _ _ r4 (.push _ (by decide))
  exact Reach.step _ _ r5 (.popSkipped _ rfl (by decide) rfl)

/-- non-vacuity: a retry during the poll, claimed again by the same poll, finished -/
example : ∃ s, Reach .code s ∧ s.status = .final ∧ s.polling = true := by
  refine ⟨{ status := .final, msgs := 0, pend := 0, polling := true, skip := false }, ?_, rfl, rfl⟩
  have r1 : Reach .code { status := .avail, msgs := 1, pend := 0, polling := false, skip := false } :=
    .step _ _ .init (.push _ (by decide))
  have r2 := Reach.step _ _ r1 (.pollStart _ rfl)
  have r3 := Reach.step _ _ r2 (.popClaim _ rfl (by decide) rfl rfl)
  have r4 := Reach.step _ _ r3 (.requeue _ rfl)
  have r5 := Reach.step _ _ r4 (.push _ (by decide))
  have r6 := Reach.step _ _ r5 (.popClaim _ rfl (by decide) rfl rfl)
  exact Reach.step _ _ r6 (.finish _ rfl)

/-- tie to the source (regenerated on every run): the only writer of the skip set is the claim through the wait graph, right after
    its PENDING write; the only reader is the queue part of the poll.  (For an AWAITED id the skipped message is not the only way
    back: it stays claimable through the wait graph — C09, `get_blocking_invocations`.) -/
theorem code_adds_to_the_skip_set_only_on_wait_graph_claims :
    Gen.PollSkip.skipSetWriters = ["get_blocking_invocations_to_run:add"] ∧
    Gen.PollSkip.skipSetReaders = ["get_additional_invocations_to_run"] ∧
    Gen.PollSkip.addFollowsPendingWrite = true := by decide

end Pynenc.C03L
