import PynencModel.Proofs.Workflow
/-
  C18 — workflow operations replay deterministically and never mix between workflows.

  Model: `Model/Workflow.lean` (the code after `fix:` c67f76b: the `DeterministicExecutor` belongs to
  one execution of a task body; its counters start at zero; it is bound to the workflow of the running
  invocation).  A *history* is any list of events: `start w a body` (a runner starts the body for an
  invocation of workflow `w`; `a` tags the attempt), `step w a now fresh` (that execution performs its
  next backend access: a `get_workflow_data`, a `set_workflow_data`, or the launch of a sub-task),
  `kill w a` (the execution stops for good at that point: the body raised, the runner died).  Nothing
  but the state backend connects two executions, so "same process" and "fresh interpreter" are the
  same histories.  Quantification is over all histories: any number of workflows, executions, bodies,
  clock readings, invocation ids.

  * `nth_random_uuid_any_schedule`, `counter_is_occurrence` — no hypothesis on the schedule at all.
  * `nth_value_stable`, `time_values_follow_recorded_base`, `execute_task_same_invocation` — schedules
    in which executions *of one workflow* do not overlap inside an operation (`World.serialRun`): attempts
    one after another, interleaved operation by operation, stopped at any backend access, all of it
    interleaved access by access with executions for other workflows (concurrent runners, threads).
  * `execute_task_once` — additionally no execution is stopped between launching and recording
    (`World.noLaunchCrash`); `crash_between_launch_and_record_relaunches` shows the hypothesis is needed.
  * `same_workflow_race_time_differs`, `same_workflow_race_launches_twice` — what happens when two
    executions of the *same* workflow overlap inside an operation (get-then-set is not atomic).
  * `workflows_disjoint`, `results_independent_of_other_workflows` — frame and non-interference.
  * `old_design_*` — the design before the repair (executor cached on the task object) refuted on its
    faithful model with concrete witnesses.
-/
namespace Pynenc.C18
open Pynenc Pynenc.Workflow Pynenc.WorkflowProofs

/-- the value an execution was given for its `n`-th request (1-based) of kind `k`; `out` is newest first -/
def nthVal (k : OpK) (n : Nat) : List Entry → Option Val
  | [] => none
  | x :: rest => if x.op = .det k ∧ occ k rest + 1 = n then some x.val else nthVal k n rest

private theorem nthVal_spec {k : OpK} {n : Nat} {out : List Entry} {v : Val} (h : nthVal k n out = some v) :
    ∃ pre x rest, out = pre ++ x :: rest ∧ x.op = .det k ∧ x.val = v ∧ occ k rest + 1 = n := by
  induction out with
  | nil => simp [nthVal] at h
  | cons y ys ih =>
    simp only [nthVal] at h
    split at h
    · rename_i hc
      exact ⟨[], y, ys, rfl, hc.1, by simpa using h, hc.2⟩
    · obtain ⟨pre, x, rest, h1, h2, h3, h4⟩ := ih h
      exact ⟨y :: pre, x, rest, by simp [h1], h2, h3, h4⟩

private theorem numbered_suffix {pre l : List Entry} (h : numbered (pre ++ l)) : numbered l := by
  induction pre with
  | nil => simpa using h
  | cons y ys ih => exact ih h.2

/-- **Counters are occurrence numbers.**  The sequence number under which an execution looks a value
    up (`"<op>:<sequence>"`) is the number of requests of that kind it has made so far — in every
    history: the executor of an execution starts at zero and nobody else advances it. -/
theorem counter_is_occurrence (evs : List Event) (w a : Nat) (e : Exec)
    (he : (World.run {} evs).execs.get? (w, a) = some e)
    (pre rest : List Entry) (x : Entry) (k : OpK) (hx : e.out = pre ++ x :: rest) (hk : x.op = .det k) :
    x.n = occ k rest + 1 := by
  have hok := (allOK_run allOK_init evs).2 w a e he
  have := numbered_suffix (hx ▸ hok.num)
  exact this.1 k hk

/-- closed form of every random / uuid value, in every history -/
theorem random_uuid_closed_form (evs : List Event) (w a : Nat) (e : Exec)
    (he : (World.run {} evs).execs.get? (w, a) = some e) (k : OpK) (hk : k ≠ .time) (n : Nat) (v : Val)
    (hv : nthVal k n e.out = some v) : v = .gen w k (n + 1) := by
  have hok := (allOK_run allOK_init evs).2 w a e he
  obtain ⟨pre, x, rest, h1, h2, h3, h4⟩ := nthVal_spec hv
  have hn : x.n = n := by
    have := numbered_suffix (h1 ▸ hok.num)
    rw [this.1 k h2, h4]
  have := hok.vals x (by rw [h1]; simp) k h2 hk
  rw [← h3, this, hn]

/-- **n-th random / uuid value, any schedule.**  In every history whatsoever — executions of the same
    or of different workflows interleaved access by access, stopped anywhere, any clock — two executions
    for the same workflow get the same `n`-th `random()` and the same `n`-th `uuid()`: the value is a
    function of (workflow, operation, n). -/
theorem nth_random_uuid_any_schedule (evs : List Event) (w a1 a2 : Nat) (e1 e2 : Exec)
    (h1 : (World.run {} evs).execs.get? (w, a1) = some e1)
    (h2 : (World.run {} evs).execs.get? (w, a2) = some e2)
    (k : OpK) (hk : k ≠ .time) (n : Nat) (v1 v2 : Val)
    (hv1 : nthVal k n e1.out = some v1) (hv2 : nthVal k n e2.out = some v2) : v1 = v2 := by
  rw [random_uuid_closed_form evs w a1 e1 h1 k hk n v1 hv1, random_uuid_closed_form evs w a2 e2 h2 k hk n v2 hv2]

/-- **`utc_now` follows the recorded base time.**  When executions of one workflow do not overlap
    inside an operation, the `n`-th `utc_now()` of every execution for `w` is the recorded
    `workflow:base_time` of `w` plus `n + 1` seconds (the base time is written once and never changes). -/
theorem time_values_follow_recorded_base (evs : List Event) (hser : World.serialRun {} evs = true)
    (w a : Nat) (e : Exec) (he : (World.run {} evs).execs.get? (w, a) = some e) (n : Nat) (v : Val)
    (hv : nthVal .time n e.out = some v) :
    ∃ b, (World.run {} evs).store.get? (w, .baseTime) = some (.time b) ∧ v = .time (b + (n + 1)) := by
  have hok := (allOK_run allOK_init evs).2 w a e he
  have hw := ((serialOK_run serialOK_init evs hser) w).2 a e he
  obtain ⟨pre, x, rest, h1, h2, h3, h4⟩ := nthVal_spec hv
  have hn : x.n = n := by
    have := numbered_suffix (h1 ▸ hok.num)
    rw [this.1 _ h2, h4]
  obtain ⟨b, hb1, hb2⟩ := hw.tvals x (by rw [h1]; simp) h2
  exact ⟨b, hb1, by rw [← h3, hb2, hn]⟩

/-- **The n-th value is stable.**  In every history in which executions of one workflow do not overlap
    inside an operation — `k` attempts one after the other (retry, recovery re-run, replay; same process
    or a fresh one: nothing but the state backend connects them), attempts interleaved operation by
    operation, executions stopped at any backend access, all of that interleaved *access by access* with
    any number of executions for other workflows — the `n`-th `random()`, `uuid()` and `utc_now()` of any
    two executions for the same workflow are equal. -/
theorem nth_value_stable (evs : List Event) (hser : World.serialRun {} evs = true)
    (w a1 a2 : Nat) (e1 e2 : Exec)
    (h1 : (World.run {} evs).execs.get? (w, a1) = some e1)
    (h2 : (World.run {} evs).execs.get? (w, a2) = some e2)
    (k : OpK) (n : Nat) (v1 v2 : Val)
    (hv1 : nthVal k n e1.out = some v1) (hv2 : nthVal k n e2.out = some v2) : v1 = v2 := by
  by_cases hk : k = .time
  · subst hk
    obtain ⟨b1, hb1, hv1'⟩ := time_values_follow_recorded_base evs hser w a1 e1 h1 n v1 hv1
    obtain ⟨b2, hb2, hv2'⟩ := time_values_follow_recorded_base evs hser w a2 e2 h2 n v2 hv2
    rw [hb1] at hb2; cases hb2; rw [hv1', hv2']
  · exact nth_random_uuid_any_schedule evs w a1 a2 e1 e2 h1 h2 k hk n v1 v2 hv1 hv2

/-- **Later executions get the recorded invocation back.**  Under the same schedules, whatever
    `execute_task` returned for call `c` to any execution of workflow `w` is the recorded
    `task_invocation:<c>` of `w`; hence all executions of `w` got the same invocation. -/
theorem execute_task_same_invocation (evs : List Event) (hser : World.serialRun {} evs = true)
    (w a1 a2 : Nat) (e1 e2 : Exec)
    (h1 : (World.run {} evs).execs.get? (w, a1) = some e1)
    (h2 : (World.run {} evs).execs.get? (w, a2) = some e2)
    (c : Nat) (x1 x2 : Entry) (hx1 : x1 ∈ e1.out) (hx2 : x2 ∈ e2.out)
    (hc1 : x1.op = .sub c) (hc2 : x2.op = .sub c) :
    (World.run {} evs).store.get? (w, .taskInv c) = some x1.val ∧ x1.val = x2.val := by
  have hs := serialOK_run serialOK_init evs hser w
  have r1 := (hs.2 a1 e1 h1).svals x1 hx1 c hc1
  have r2 := (hs.2 a2 e2 h2).svals x2 hx2 c hc2
  refine ⟨r1, ?_⟩
  rw [r1] at r2; exact Option.some.inj r2

/-- **One launch per workflow and call identity.**  Under the same schedules, and when no execution is
    stopped between launching a sub-task and recording its id, `execute_task` launches at most one
    invocation per (workflow, call identity) in the whole history, and every execution that asked for
    that call got exactly that invocation. -/
theorem execute_task_once (evs : List Event) (hser : World.serialRun {} evs = true)
    (hnc : World.noLaunchCrash {} evs = true) (w c : Nat) :
    (launchesOf (World.run {} evs).launches w c).length ≤ 1 ∧
    ∀ a e, (World.run {} evs).execs.get? (w, a) = some e → ∀ x ∈ e.out, x.op = .sub c →
      ∃ i, x.val = .inv i ∧ launchesOf (World.run {} evs).launches w c = [i] := by
  have hl := launchAll_run serialOK_init launchAll_init evs hser hnc w
  have hs := serialOK_run serialOK_init evs hser w
  constructor
  · cases hg : (World.run {} evs).store.get? (w, .taskInv c) with
    | some v => obtain ⟨i, _, hi⟩ := hl.recd c v hg; simp [hi]
    | none =>
      rcases hl.unrec c hg with h | ⟨a, e, i, h1, h2, h3⟩
      · simp [h]
      · simp [hl.p2 a e c i h1 h2 h3]
  · intro a e he x hx hc
    have := (hs.2 a e he).svals x hx c hc
    exact hl.recd c x.val this

/-- **Workflows are disjoint (frame).**  An event of workflow `w'` — in particular any backend access
    of an execution running for `w'` — changes no record of another workflow `w`, no execution of `w`,
    and adds no launch to `w`. -/
theorem workflows_disjoint (s : World) (ev : Event) (w : Nat) (hw : ev.wf ≠ w) :
    (∀ k, (s.apply ev).store.get? (w, k) = s.store.get? (w, k)) ∧
    (∀ a, (s.apply ev).execs.get? (w, a) = s.execs.get? (w, a)) ∧
    (∀ c, launchesOf (s.apply ev).launches w c = launchesOf s.launches w c) := by
  have h := agree_apply_other s ev hw
  exact ⟨fun k => (h.1 k).symm, fun a => (h.2.1 a).symm, fun c => (h.launchesOf c).symm⟩

/-- **Non-interference.**  Everything that belongs to workflow `w` after a history — its records, its
    executions with every value they were given, its launches — is exactly what the history gives with
    all events of other workflows deleted: executions for `w` read only records of `w` and their results
    do not depend on what runs for other workflows, nor on how it is interleaved. -/
theorem results_independent_of_other_workflows (evs : List Event) (w : Nat) :
    let s := World.run {} evs
    let s' := World.run {} (evs.filter fun ev => decide (ev.wf = w))
    (∀ k, s.store.get? (w, k) = s'.store.get? (w, k)) ∧
    (∀ a, s.execs.get? (w, a) = s'.execs.get? (w, a)) ∧
    (∀ c, launchesOf s.launches w c = launchesOf s'.launches w c) := by
  have h := agree_run (agree_refl w {}) evs
  exact ⟨h.1, h.2.1, fun c => h.launchesOf c⟩

/-- **An uninterrupted operation is atomic.**  The backend accesses of one operation of an execution,
    performed back to back, are exactly the operation taken as one step (`atomicOp`: the record-or-replay
    of `_deterministic_operation` / `execute_task`) with the execution's own workflow and counters —
    histories at operation granularity are histories of the access-level model. -/
theorem uninterrupted_operation_is_atomic (w : Nat) (st : Store) (e : Exec) (now fresh : Nat) (op : Op)
    (hp : e.phase = .idle) (hb : e.body[e.out.length]? = some op) :
    microLoop 6 w st e now fresh [] =
      ({ e with ctr := (atomicOp w e.ctr st now fresh op).1,
                out := ⟨op, Op.seqOf e.ctr op, (atomicOp w e.ctr st now fresh op).2.2.1⟩ :: e.out },
       (atomicOp w e.ctr st now fresh op).2.1, (atomicOp w e.ctr st now fresh op).2.2.2) := by
  obtain ⟨body, out, ctr, phase, live⟩ := e
  simp only at hp hb; subst hp
  cases op with
  | det k =>
    cases hg : st.get? (w, .seq k (ctr.get k + 1)) with
    | some v => simp [microLoop, stepExec, atomicOp, hb, hg, Op.seqOf]
    | none =>
      by_cases hk : k = .time
      · subst hk
        cases hbt : st.get? (w, .baseTime) with
        | some b => simp [microLoop, stepExec, atomicOp, hb, hg, hbt, Op.seqOf, get?_set]
        | none => simp [microLoop, stepExec, atomicOp, hb, hg, hbt, Op.seqOf, get?_set]
      · simp [microLoop, stepExec, atomicOp, hb, hg, hk, Op.seqOf, get?_set]
  | sub c =>
    cases hg : st.get? (w, .taskInv c) with
    | some v => simp [microLoop, stepExec, atomicOp, hb, hg, Op.seqOf]
    | none => simp [microLoop, stepExec, atomicOp, hb, hg, Op.seqOf]

/-! ### non-vacuity: a history with two workflows, interleaved access by access, a stopped attempt and a retry -/

/-- workflow 1: attempt 0 does `random` and half of `utc_now` (it records the base time 11), is stopped, attempt 1 replays the body;
    workflow 2 runs the same body in between, access by access -/
def demo : List Event :=
  [.start 1 0 [.det .random, .det .time, .sub 7], .start 2 0 [.det .random, .det .time, .sub 7],
   .step 1 0 10 100, .step 2 0 20 200, .step 1 0 10 100, .step 2 0 20 200, .step 1 0 10 100,
   .step 1 0 10 100, .step 2 0 20 200, .step 2 0 20 200,
   .step 1 0 11 101, .step 2 0 21 201, .step 1 0 11 101, .step 1 0 11 101, .kill 1 0,
   .start 1 1 [.det .random, .det .time, .sub 7]] ++
  (List.replicate 12 (.step 1 1 50 500)) ++ (List.replicate 12 (.step 2 0 60 600))

example : World.serialRun {} demo = true ∧ World.noLaunchCrash {} demo = true := by decide
example : (((World.run {} demo).execs.get? (1, 1)).map fun e => (nthVal .random 1 e.out, nthVal .time 1 e.out)) =
    some (some (.gen 1 .random 2), some (.time 13)) := by decide
example : (((World.run {} demo).execs.get? (1, 0)).map fun e => nthVal .random 1 e.out) =
    some (some (.gen 1 .random 2)) := by decide
example : launchesOf (World.run {} demo).launches 1 7 = [500] ∧ launchesOf (World.run {} demo).launches 2 7 = [600] := by
  decide

/-! ### what fails outside the hypotheses -/

/-- two executions of the same workflow, both inside their first `utc_now()` -/
def raceTime : List Event :=
  [.start 1 0 [.det .time], .start 1 1 [.det .time],
   .step 1 0 10 0, .step 1 1 20 0,     -- both: get "time:1" → nothing recorded
   .step 1 0 10 0, .step 1 1 20 0,     -- both: get "workflow:base_time" → nothing recorded
   .step 1 0 10 0, .step 1 0 10 0, .step 1 0 10 0, .step 1 0 10 0,   -- (1,0) records base 10, "time:1" = 12
   .step 1 1 20 0, .step 1 1 20 0, .step 1 1 20 0, .step 1 1 20 0]   -- (1,1) overwrites base 20, "time:1" = 22

/-- **Get-then-set is not atomic (utc_now).**  When two executions of the *same* workflow overlap
    inside their first `utc_now()`, both find no base time, each records its own clock reading, and they
    return different first timestamps (12 and 22); a later replay sees the second one. -/
theorem same_workflow_race_time_differs :
    World.serialRun {} raceTime = false ∧
    (((World.run {} raceTime).execs.get? (1, 0)).map fun e => nthVal .time 1 e.out) = some (some (.time 12)) ∧
    (((World.run {} raceTime).execs.get? (1, 1)).map fun e => nthVal .time 1 e.out) = some (some (.time 22)) := by
  decide

def raceLaunch : List Event :=
  [.start 1 0 [.sub 7], .start 1 1 [.sub 7],
   .step 1 0 0 100, .step 1 1 0 200,   -- both: get "task_invocation:7" → nothing recorded
   .step 1 0 0 100, .step 1 1 0 200,   -- both launch
   .step 1 0 0 100, .step 1 1 0 200]   -- both record; the second wins

/-- **Get-then-set is not atomic (execute_task).**  Two overlapping executions of the same workflow
    asking for the same call both launch it. -/
theorem same_workflow_race_launches_twice :
    World.serialRun {} raceLaunch = false ∧ launchesOf (World.run {} raceLaunch).launches 1 7 = [100, 200] := by
  decide

def crashLaunch : List Event :=
  [.start 1 0 [.sub 7], .step 1 0 0 100, .step 1 0 0 100, .kill 1 0,
   .start 1 1 [.sub 7], .step 1 1 0 200, .step 1 1 0 200, .step 1 1 0 200]

/-- **The launch window.**  An execution stopped after `task(*args)` and before
    `set_workflow_data("task_invocation:…")` leaves a launched but unrecorded invocation: the next
    attempt launches the call again (the history is serial; only `noLaunchCrash` fails). -/
theorem crash_between_launch_and_record_relaunches :
    World.serialRun {} crashLaunch = true ∧ World.noLaunchCrash {} crashLaunch = false ∧
    launchesOf (World.run {} crashLaunch).launches 1 7 = [100, 200] := by
  decide

/-! ### the design before the repair -/

/-- **Old design: counters continue.**  With the executor cached on the task object, the second
    execution of the same body for the same workflow in one process continues the counters: it is given
    the 3rd and 4th values instead of the 1st and 2nd. -/
theorem old_design_counters_continue :
    let body := [Op.det .random, Op.det .random]
    let r1 := OldWorld.runBody {} 1 body 0 0
    let r2 := r1.1.runBody 1 body 0 0
    r1.2 = [.gen 1 .random 2, .gen 1 .random 3] ∧ r2.2 = [.gen 1 .random 4, .gen 1 .random 5] := by
  decide

/-- **Old design: workflows mix.**  The cached executor stays bound to the first workflow that used
    the task: a second workflow's operations are answered from, and recorded under, the first workflow;
    nothing is ever recorded under the second. -/
theorem old_design_mixes_workflows :
    let body := [Op.det .uuid, Op.sub 7]
    let r1 := OldWorld.runBody {} 1 body 0 100
    let r2 := r1.1.runBody 2 body 0 200
    r2.2 = [.gen 1 .uuid 3, .inv 101] ∧ recordsOf r2.1.store 2 = [] ∧
    (recordsOf r2.1.store 1).length = 4 := by
  decide

/-- Old design, fresh interpreter between the attempts: the replay is correct — which is why comparing
    two hand-made executors (as the unit tests do) never showed the defect. -/
theorem old_design_fresh_process_replays :
    let body := [Op.det .random, Op.det .time, Op.sub 7]
    let r1 := OldWorld.runBody {} 1 body 5 100
    let r2 := r1.1.restart.runBody 1 body 9 200
    r1.2 = r2.2 := by
  decide

/-- The repaired design on the same two histories: the replay in the same process returns the same
    values, and the second workflow gets its own values under its own id. -/
theorem new_design_same_histories :
    let body := [Op.det .random, Op.det .random]
    let s := World.run {} [.start 1 0 body, .start 1 1 body, .start 2 0 body]
    let s := ((s.runOp 1 0 0 0).runOp 1 0 0 0)
    let s := ((s.runOp 1 1 0 0).runOp 1 1 0 0)
    let s := ((s.runOp 2 0 0 0).runOp 2 0 0 0)
    (s.execs.get? (1, 0)).map (·.out.map (·.val)) = some [.gen 1 .random 3, .gen 1 .random 2] ∧
    (s.execs.get? (1, 1)).map (·.out.map (·.val)) = some [.gen 1 .random 3, .gen 1 .random 2] ∧
    (s.execs.get? (2, 0)).map (·.out.map (·.val)) = some [.gen 2 .random 3, .gen 2 .random 2] := by
  decide

end Pynenc.C18
