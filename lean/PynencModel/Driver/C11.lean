import PynencModel.Model.Stop
import PynencModel.Model.Basic
import PynencModel.Gen.StatusTable
/-
  Driver fragment for C11: `stop.terminals <ok|fail|retry|pause> <pending|finished>` prints the set of terminal
  (status/owner/queued) triples of the Lean stop model for a task thread that had not started (`pending`) or had already
  finished (`finished`) when the stop request arrived.
-/
namespace Pynenc.Driver.C11
open Pynenc Pynenc.Stop

structure St where
  unit : Unit := ()

def showTerm (s : Stop.St) : String :=
  s!"{s.sr.status.name}/{match s.sr.owner with | some _ => "self" | none => "-"}/{s.queued}"

def handle (w : St) : List String → Option (St × String)
  | ["stop.terminals", script, start] =>
    let sc : Option Script := match script with | "ok" => some .ok | "fail" => some .fail | "retry" => some .retry | "pause" => some .pause | _ => none
    match sc with
    | none => some (w, "bad-op")
    | some sc =>
      let inits : List Stop.St :=
        if start == "pending" then [{ sr := ⟨.pending, self⟩, queued := 0, t := .start, k := .check, script := sc }]
        else
          -- the task thread ran to completion before the stop: every terminal of the thread alone
          let alone := terminals Gen.table 12 { sr := ⟨.pending, self⟩, queued := 0, t := .start, k := .done, script := sc }
          alone.map fun s => { s with k := .check }
      let terms := inits.flatMap (terminals Gen.table 16)
      some (w, " ".intercalate (dedup (terms.map showTerm)))
  | _ => none

end Pynenc.Driver.C11
