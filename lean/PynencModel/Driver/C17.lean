import PynencModel.Model.Proto
import PynencModel.Model.Sanitize
import PynencModel.Gen.TableNames
/-
  Driver fragment for C17 (storage naming scheme, SQLite name comparison, LIKE, purge).
    san.prefix <id tok> <hash8>                     -> sanitize_table_prefix(id)
    san.tables <id tok> <hash8>                     -> comp=name,name;comp=…   (Gen.components order)
    san.ieq <a tok> <b tok>                         -> true|false   (SQLite table-name equality)
    san.reserved <name tok>                         -> true|false   (name starts with sqlite_)
    san.like <pattern tok> <string tok>             -> true|false
    san.purge exact <id tok> <hash8> <comp> <tables>  -> names emptied by delete_tables(own names of comp)
    san.purge like <prefix tok> <tables>              -> names emptied by delete_tables_with_prefix(prefix)
  <tables> = comma-separated tokens of the existing table names (`-` = none); every table holds one row.
-/
namespace Pynenc.Driver.C17
open Pynenc Pynenc.Proto Pynenc.San

structure St where
  unit : Unit := ()

def str? (t : String) : Option (List Char) :=
  match untok t with
  | some (some s) => some s.toList
  | _ => none

def hash? (t : String) : Option (List Char) := if isHex8 t.toList then some t.toList else none

def tables? (t : String) : Option (List (List Char)) :=
  if t == "-" then some [] else (t.splitOn ",").mapM str?

def emptied (before after : DB Unit) : String :=
  let names := (before.zip after).filterMap fun (b, a) => if b.2 ≠ [] ∧ a.2 = [] then some (String.ofList a.1) else none
  if names.isEmpty then "-" else ",".intercalate names

def handle (w : St) : List String → Option (St × String)
  | ["san.prefix", id, h] => some <|
    match str? id, hash? h with
    | some i, some h => (w, String.ofList (sprefix i h))
    | _, _ => (w, "bad-op")
  | ["san.tables", id, h] => some <|
    match str? id, hash? h with
    | some i, some h =>
      (w, ";".intercalate (Gen.components.map fun (c, _) =>
        c ++ "=" ++ ",".intercalate ((compTables Gen.components i h c).map String.ofList)))
    | _, _ => (w, "bad-op")
  | ["san.ieq", a, b] => some <|
    match str? a, str? b with
    | some a, some b => (w, toString (ieq a b))
    | _, _ => (w, "bad-op")
  | ["san.reserved", a] => some <|
    match str? a with
    | some a => (w, toString (isReserved a))
    | _ => (w, "bad-op")
  | ["san.like", p, s] => some <|
    match str? p, str? s with
    | some p, some s => (w, toString (like p s))
    | _, _ => (w, "bad-op")
  | ["san.purge", "exact", id, h, comp, ts] => some <|
    match str? id, hash? h, tables? ts with
    | some i, some h, some ts =>
      if Gen.components.any (·.1 == comp) then
        let db : DB Unit := ts.map fun n => (n, [()])
        (w, emptied db (purgeExact db (compTables Gen.components i h comp)))
      else (w, "bad-op")
    | _, _, _ => (w, "bad-op")
  | ["san.purge", "like", pfx, ts] => some <|
    match str? pfx, tables? ts with
    | some p, some ts =>
      let db : DB Unit := ts.map fun n => (n, [()])
      (w, emptied db (purgeLike db p))
    | _, _ => (w, "bad-op")
  | _ => none

end Pynenc.Driver.C17
