import PynencModel.Model.Proto
import PynencModel.Model.Monitor
import PynencModel.Gen.Handlers
/-
  Driver fragment for C20 (monitor).
    mon.reset                          empty system
    mon.route <id> | mon.retrieve | mon.count | mon.purge_broker        broker operations
    mon.rec <id> | mon.purge_state                                      stored invocation records
    mon.queue                           the queue, oldest first (tokens)
    mon.queueview <limit> | mon.queueview_old <limit>                   serve `GET /broker/queue?limit=` (state updated)
    mon.kind <component.method>         ro | mut | unknown   (the hand-written classification table)
    mon.handler <python name of the handler>   ro | exception | mut | unknown  (from the generated route table)
    mon.calls <python name of the handler>     python names of the reachable methods as the Lean table has them
-/
namespace Pynenc.Driver.C20
open Pynenc Pynenc.Proto Pynenc.Monitor

structure St where
  sys : Sys := {}

def showQ (s : Sys) : String :=
  if s.queue.isEmpty then "[]" else " ".intercalate (s.queue.map fun i => tok (some i))

def showOut : QVOut → String
  | .ok d t => s!"ok {d} {t}"
  | .failed i => s!"failed {tok (some i)}"

def handle (w : St) : List String → Option (St × String)
  | ["mon.reset"] => some ({ sys := {} }, "ok")
  | ["mon.route", i] => some <|
    match untok i with
    | some (some i) => ({ sys := (exec .brokerRoute { id := i } w.sys).1 }, "ok")
    | _ => (w, "bad-op")
  | ["mon.retrieve"] => some <|
    match exec .brokerRetrieve {} w.sys with
    | (s, .opt o) => ({ sys := s }, tok o)
    | (s, _) => ({ sys := s }, "bad-op")
  | ["mon.count"] => some <|
    match exec .brokerCount {} w.sys with
    | (_, .num n) => (w, toString n)
    | _ => (w, "bad-op")
  | ["mon.purge_broker"] => some ({ sys := (exec .brokerPurge {} w.sys).1 }, "ok")
  | ["mon.purge_state"] => some ({ sys := (exec .sbPurge {} w.sys).1 }, "ok")
  | ["mon.rec", i] => some <|
    match untok i with
    | some (some i) => ({ sys := (exec .sbUpsert { ids := [i], id := i } w.sys).1 }, "ok")
    | _ => (w, "bad-op")
  | ["mon.queue"] => some (w, showQ w.sys)
  | ["mon.queueview", l] => some <|
    match l.toInt? with
    | some l => let r := queueView l w.sys; ({ sys := r.1 }, showOut r.2)
    | none => (w, "bad-op")
  | ["mon.queueview_fault", k] => some <|
    match k.toNat? with
    | some k => ({ sys := queueViewFault k w.sys }, "failed")
    | none => (w, "bad-op")
  | ["mon.queueview_old", l] => some <|
    match l.toInt? with
    | some l => let r := queueViewOld l w.sys; ({ sys := r.1 }, showOut r.2)
    | none => (w, "bad-op")
  | ["mon.kind", n] => some (w, kindOfName n)
  | ["mon.handler", n] => some <|
    match Gen.handlers.find? (fun h => h.name == n) with
    | none => (w, "unknown")
    | some h => (w, if h.isException then "exception" else if h.readOnly then "ro" else "mut")
  | ["mon.calls", n] => some <|
    match Gen.handlers.find? (fun h => h.name == n) with
    | none => (w, "unknown")
    | some h => (w, " ".intercalate ((h.calls.map Method.name) ++ h.unknown.map (fun u => "?" ++ u) ++ ["."]))
  | _ => none

end Pynenc.Driver.C20
