import PynencModel.Model.Proto
import PynencModel.Model.Exec
/-
  Driver fragment for C19 (task programs).
    ex.sync <prog> | ex.dist <prog> | ex.eager <prog>      evaluate a program in one mode
    ex.class <prog>                                         `safe=<bool> unamb=<bool>` (program classes of the theorems)
    ex.racy <max_retries> <left> <digits>                   executions under the pre-a0b5643 retry order, watched for
                                                            `left` executions; digit k = increments landed at execution k
  <prog> := N <id> <max_retries> <direct 0|1> <#retry_for> <name>* <#script> <act>* <dflt act> <#calls> <call>*
  <act>  := R <int> | E <exc> | L <exc>
  <exc>  := <kind> <#mro> <name>* <#args> <arg token>*
  <call> := S <prog> | G <direct 0|1> <#members> <prog>* | F <prog>
  Answer: `<outcome>;<num_retries>;<runs>;<id>:<seen>,…` with <outcome> = `val <int>` or `err <kind> <arg>,<arg>…`
  (executions in evaluation order; the harness compares them as multisets).
-/
namespace Pynenc.Driver.C19
open Pynenc Pynenc.Exec

structure St where
  unit : Unit := ()

abbrev P := StateT (List String) Option

def next : P String := fun ts =>
  match ts with
  | [] => none
  | t :: r => some (t, r)

def nat : P Nat := do
  let t ← next
  match t.toNat? with
  | some n => pure n
  | none => failure

def int : P Int := do
  let t ← next
  match t.toInt? with
  | some n => pure n
  | none => failure

def bool : P Bool := do
  let t ← next
  if t == "0" then pure false else if t == "1" then pure true else failure

def many {α : Type} (p : P α) : Nat → P (List α)
  | 0 => pure []
  | n + 1 => do
    let a ← p
    let r ← many p n
    pure (a :: r)

def exc : P Exc := do
  let kind ← next
  let nm ← nat
  let mro ← many next nm
  let na ← nat
  let args ← many next na
  pure ⟨kind, mro, args⟩

def act : P Act := do
  let t ← next
  if t == "R" then return .ret (← int)
  else if t == "E" then return .early (← exc)
  else if t == "L" then return .late (← exc)
  else failure

mutual
  def prog : Nat → P Prog
    | 0 => failure
    | fuel + 1 => do
      let t ← next
      if t != "N" then failure
      let id ← nat
      let mr ← nat
      let direct ← bool
      let nrf ← nat
      let rf ← many next nrf
      let ns ← nat
      let script ← many act ns
      let dflt ← act
      let nc ← nat
      let calls ← calls fuel nc
      pure (.node ⟨id, mr, rf, direct, script, dflt⟩ calls)
  def calls : Nat → Nat → P Calls
    | 0, _ => failure
    | _ + 1, 0 => pure .nil
    | fuel + 1, n + 1 => do
      let t ← next
      if t == "S" then
        let p ← prog fuel
        let rest ← calls fuel n
        pure (.single p rest)
      else if t == "F" then
        let p ← prog fuel
        let rest ← calls fuel n
        pure (.forget p rest)
      else if t == "G" then
        let d ← bool
        let k ← nat
        let ps ← progs fuel k
        let rest ← calls fuel n
        pure (.group d ps rest)
      else failure
  def progs : Nat → Nat → P Progs
    | 0, _ => failure
    | _ + 1, 0 => pure .nil
    | fuel + 1, n + 1 => do
      let p ← prog fuel
      let rest ← progs fuel n
      pure (.cons p rest)
end

def showOutcome : Outcome → String
  | .val v => s!"val {v}"
  | .err e => s!"err {e.kind} {",".intercalate e.args}"

def showRes (r : Res) : String :=
  s!"{showOutcome r.out};{r.retries};{r.runs};{",".intercalate (r.log.map fun e => s!"{e.1}:{e.2}")}"

def parseProg (toks : List String) : Option Prog :=
  match (prog (toks.length + 1)).run toks with
  | some (p, []) => some p
  | _ => none

def handle (w : St) : List String → Option (St × String)
  | "ex.sync" :: toks => some <|
    match parseProg toks with
    | some p => (w, showRes (evalSync p))
    | none => (w, "bad-op")
  | "ex.dist" :: toks => some <|
    match parseProg toks with
    | some p => (w, showRes (evalDist id id p))
    | none => (w, "bad-op")
  | "ex.eager" :: toks => some <|
    match parseProg toks with
    | some p => (w, showRes (evalEager p))
    | none => (w, "bad-op")
  | "ex.class" :: toks => some <|
    match parseProg toks with
    | some p => (w, s!"safe={safe p} unamb={unamb p}")
    | none => (w, "bad-op")
  | ["ex.racy", m, left, digits] => some <|
    match m.toNat?, left.toNat? with
    | some m, some left =>
      if digits.toList.all Char.isDigit then
        (w, toString (racyRuns (fun k => (digits.toList.getD k '9').toNat - '0'.toNat) m left {}))
      else (w, "bad-op")
    | _, _ => (w, "bad-op")
  | _ => none

end Pynenc.Driver.C19
