import PynencModel.Model.Proto
import PynencModel.Model.Trigger
/-
  Driver fragment for C13 (trigger store, trigger loop, cron).  Strings cross the pipe as tokens
  (`Proto.tok`); lists of tokens are joined by `,` (`-` = empty list); instants are integer µs.

  trg.reset <mem|sqlite>
  trg.cond.event <cid> <code>            trg.cond.status <cid> <task> <statuses>
  trg.cond.result <cid> <task>           trg.cond.exc <cid> <task> <types>
  trg.cond.cron <cid> <mi> <h> <d> <mo> <w> <window> <minint> <tol> <strict>
  trg.trig <tid> <task> <and|or> <conds> <prov>      prov items: s:<tok> | c:<event|status|result|exception>
  trg.clean <task>                       trg.triggers <cid>
  trg.event <code> <id> <n>              trg.status <task> <inv> <status> <k>
  trg.result <task> <inv> <k> <res>      trg.exc <task> <inv> <type> <k>
  trg.valid                              trg.clear <rendered ids>
  trg.claim <run tok> <now> <expiry µs>  trg.getlast <cid>       trg.cas <cid> <t> <expected|->
  trg.cronpass <runner> <now>            trg.loop <runner> <now>           trg.cacheclear <runner>
  cron.tick/latest/next <5 fields> <minute>
  cron.sat <5 fields> <window> <minint> <tol> <strict> <t> <last|->
  cron.polls <5 fields> <window> <minint> <tol> <strict> <code|spec> <last|-> <t1,t2,…>
-/
namespace Pynenc.Driver.C13
open Pynenc Pynenc.Proto Pynenc.Trigger

structure St where
  store : Store := {}
  caches : AMap String (AMap String Int) := []

def listOf (s : String) : List String := if s == "-" then [] else s.splitOn ","

def untokList (s : String) : Option (List String) :=
  (listOf s).foldr (fun t acc => match untok t, acc with
    | some (some x), some l => some (x :: l)
    | _, _ => none) (some [])

def str (t : String) : Option String := match untok t with | some (some x) => some x | _ => none

def optInt (t : String) : Option (Option Int) := if t == "-" then some none else t.toInt?.map some

def showList (l : List String) : String := if l.isEmpty then "-" else ",".intercalate l

def parseKind : String → Option Kind
  | "event" => some .event
  | "status" => some .status
  | "result" => some .result
  | "exception" => some .exception
  | _ => none

def parseProv (s : String) : Option (List ProvItem) :=
  (listOf s).foldr (fun t acc =>
    let item : Option ProvItem :=
      match t.splitOn ":" with
      | ["s", x] => (str x).map ProvItem.static
      | ["c", k] => (parseKind k).map ProvItem.ctxType
      | _ => none
    match item, acc with
    | some i, some l => some (i :: l)
    | _, _ => none) (some [])

def parseCfg (w mi tol strict : String) : Option Cron.Cfg :=
  match w.toInt?, mi.toInt?, tol.toInt?, strict with
  | some w, some mi, some tol, "0" => some { window := w, minInterval := mi, tolerance := tol, strict := false }
  | some w, some mi, some tol, "1" => some { window := w, minInterval := mi, tolerance := tol, strict := true }
  | _, _, _, _ => none

def showLaunch (l : Launch) : String := s!"{tok (some l.task)}:{tok (some l.tag)}:{tok (some l.src)}"

def sortStrings (l : List String) : List String := sortBy (fun a b => decide (a ≤ b)) l

def showOut (o : RunOut) : String :=
  s!"L {showList (sortStrings (o.launches.map (fun l => showLaunch l.2)))} R {if o.raised then 1 else 0}"

def bool (b : Bool) : String := if b then "true" else "false"

def handle (w : St) : List String → Option (St × String)
  | ["trg.reset", kind] => some <|
    match kind with
    | "mem" => ({ store := { sqlite := false }, caches := [] }, "ok")
    | "sqlite" => ({ store := { sqlite := true }, caches := [] }, "ok")
    | _ => (w, "bad-op")
  | ["trg.cond.event", cid, code] => some <|
    match str cid, str code with
    | some c, some e => ({ w with store := w.store.registerCond { id := c, spec := .event e } }, "ok")
    | _, _ => (w, "bad-op")
  | ["trg.cond.status", cid, task, sts] => some <|
    match str cid, str task, untokList sts with
    | some c, some t, some l => ({ w with store := w.store.registerCond { id := c, spec := .status t l } }, "ok")
    | _, _, _ => (w, "bad-op")
  | ["trg.cond.result", cid, task] => some <|
    match str cid, str task with
    | some c, some t => ({ w with store := w.store.registerCond { id := c, spec := .result t } }, "ok")
    | _, _ => (w, "bad-op")
  | ["trg.cond.exc", cid, task, tys] => some <|
    match str cid, str task, untokList tys with
    | some c, some t, some l => ({ w with store := w.store.registerCond { id := c, spec := .exception t l } }, "ok")
    | _, _, _ => (w, "bad-op")
  | ["trg.cond.cron", cid, mi, h, d, mo, dw, win, mint, tol, strict] => some <|
    match str cid, Cron.parseExpr mi h d mo dw, parseCfg win mint tol strict with
    | some c, some e, some cfg => ({ w with store := w.store.registerCond { id := c, spec := .cron e cfg } }, "ok")
    | _, _, _ => (w, "bad-op")
  | ["trg.trig", tid, task, logic, conds, prov] => some <|
    let lg : Option Logic := match logic with | "and" => some .and | "or" => some .or | _ => none
    match str tid, str task, lg, untokList conds, parseProv prov with
    | some i, some t, some lg, some cs, some ps =>
      ({ w with store := w.store.registerTrigger { id := i, task := t, conds := cs, logic := lg, prov := ps } }, "ok")
    | _, _, _, _, _ => (w, "bad-op")
  | ["trg.clean", task] => some <|
    match str task with
    | some t => ({ w with store := w.store.cleanTask t }, "ok")
    | none => (w, "bad-op")
  | ["trg.triggers", cid] => some <|
    match str cid with
    | some c => (w, showList (sortStrings (dedup ((w.store.triggersFor c).map (fun t => tok (some t.id))))))
    | none => (w, "bad-op")
  | ["trg.event", code, id, n] => some <|
    match str code, str id, str n with
    | some c, some i, some n => ({ w with store := w.store.report { key := .event c i, n := n } "" }, "ok")
    | _, _, _ => (w, "bad-op")
  | ["trg.status", task, inv, st, k] => some <|
    match str task, str inv, str st, str k with
    | some t, some i, some s, some k => ({ w with store := w.store.report { key := .status i s, k := k } t }, "ok")
    | _, _, _, _ => (w, "bad-op")
  | ["trg.result", task, inv, k, res] => some <|
    match str task, str inv, str k, str res with
    | some t, some i, some k, some r => ({ w with store := w.store.report { key := .result i, k := k, res := r } t }, "ok")
    | _, _, _, _ => (w, "bad-op")
  | ["trg.exc", task, inv, ty, k] => some <|
    match str task, str inv, str ty, str k with
    | some t, some i, some y, some k => ({ w with store := w.store.report { key := .exception i y, k := k } t }, "ok")
    | _, _, _, _ => (w, "bad-op")
  | ["trg.valid"] => some (w, showList (w.store.valid.map (fun v => tok (some (renderKey v.key)))))
  | ["trg.clear", ids] => some <|
    match untokList ids with
    | some l =>
      let ks := (w.store.valid.filter (fun v => l.contains (renderKey v.key))).map VC.key
      ({ w with store := w.store.clearValid ks }, "ok")
    | none => (w, "bad-op")
  | ["trg.claim", run, now, expiry] => some <|
    match str run, now.toInt?, expiry.toInt? with
    | some r, some n, some e =>
      let (s', ok) := w.store.claim (r, []) n e
      ({ w with store := s' }, bool ok)
    | _, _, _ => (w, "bad-op")
  | ["trg.getlast", cid] => some <|
    match str cid with
    | some c => (w, match w.store.getLastCron c with | some t => toString t | none => "-")
    | none => (w, "bad-op")
  | ["trg.cas", cid, t, expected] => some <|
    match str cid, t.toInt?, optInt expected with
    | some c, some t, some e =>
      let (s', ok) := w.store.casLastCron c t e
      ({ w with store := s' }, bool ok)
    | _, _, _ => (w, "bad-op")
  | ["trg.cacheclear", runner] => some ({ w with caches := w.caches.erase runner }, "ok")
  | ["trg.cronpass", runner, now] => some <|
    match now.toInt? with
    | some n =>
      let cache := (w.caches.get? runner).getD []
      let (s', cache', fired) := cronPass w.store cache n
      ({ store := s', caches := w.caches.set runner cache' }, showList (fired.map (fun c => tok (some c))))
    | none => (w, "bad-op")
  | ["trg.loop", runner, now] => some <|
    match now.toInt? with
    | some n =>
      let cache := (w.caches.get? runner).getD []
      let (out, cache') := loopIteration w.store cache n
      ({ store := out.store, caches := w.caches.set runner cache' }, showOut out)
    | none => (w, "bad-op")
  | ["cron.tick", mi, h, d, mo, dw, m] => some <|
    match Cron.parseExpr mi h d mo dw, m.toInt? with
    | some e, some m => (w, bool (e.tick m))
    | _, _ => (w, "bad-op")
  | ["cron.latest", mi, h, d, mo, dw, m] => some <|
    match Cron.parseExpr mi h d mo dw, m.toInt? with
    | some e, some m => (w, match e.latest m with | some x => toString x | none => "none")
    | _, _ => (w, "bad-op")
  | ["cron.next", mi, h, d, mo, dw, m] => some <|
    match Cron.parseExpr mi h d mo dw, m.toInt? with
    | some e, some m => (w, match e.next m with | some x => toString x | none => "none")
    | _, _ => (w, "bad-op")
  | ["cron.sat", mi, h, d, mo, dw, win, mint, tol, strict, t, last] => some <|
    match Cron.parseExpr mi h d mo dw, parseCfg win mint tol strict, t.toInt?, optInt last with
    | some e, some cfg, some t, some l =>
      (w, match e.isSatisfiedBy cfg t l with | some b => bool b | none => "none")
    | _, _, _, _ => (w, "bad-op")
  | ["cron.polls", mi, h, d, mo, dw, win, mint, tol, strict, mode, last, ts] => some <|
    let times : Option (List Int) := (listOf ts).foldr (fun t acc => match t.toInt?, acc with
      | some x, some l => some (x :: l)
      | _, _ => none) (some [])
    match Cron.parseExpr mi h d mo dw, parseCfg win mint tol strict, optInt last, times with
    | some e, some cfg, some l, some ts =>
      let sat := fun t last => cronSat e cfg t last
      match mode with
      | "spec" => (w, showList ((Cron.runPolls sat l ts).map toString))
      | "code" => (w, showList ((Cron.runPolls sat l ts).map toString))
      | _ => (w, "bad-op")
    | _, _, _, _ => (w, "bad-op")
  | _ => none

end Pynenc.Driver.C13
