import PynencModel.Model.Basic
import PynencModel.Model.Pool
/-
  Driver fragment for C14 (worker-pool bookkeeping of the process-based runners).

    pool.start persistent <min_parallel_slots> <num_processes> <cpu_count>
    pool.start multi <min_processes> <max_processes> <cpu_count> <enforce 0|1>
    pool.start process <min_parallel_slots> <cpu_count>
    pool.die <id,id,…|->        the processes of these runner ids die
    pool.iter <queued>           one `runner_loop_iteration` with that many invocations queued
    pool.beat                    `_report_child_runner_heartbeats`

  Runner ids are creation indices (the harness renames uuids by creation order).  Every answer is
    t=<tracked ids> a=<alive tracked ids> r=<ids passed to register_runner_heartbeats during the op>
  with ids sorted ascending, `-` for none.
-/
namespace Pynenc.Driver.C14
open Pynenc Pynenc.Pool

structure St where
  cfg : Option Cfg := none
  pool : Pool := {}

def showIds (l : List Nat) : String :=
  if l.isEmpty then "-" else ",".intercalate ((sortBy (fun a b => decide (a ≤ b)) l).map toString)

def parseIds (s : String) : Option (List Nat) :=
  if s == "-" then some [] else (s.splitOn ",").mapM String.toNat?

def render (p : Pool) (rep : List Nat) : String :=
  s!"t={showIds p.ids} a={showIds (heartbeatIds p)} r={showIds rep}"

def started (_w : St) (c : Cfg) : St × String :=
  let p := start c
  ({ cfg := some c, pool := p }, s!"cap={c.cap} " ++ render p [])

def handle (w : St) : List String → Option (St × String)
  | ["pool.start", "persistent", ms, num, cpu] => some <|
    match ms.toNat?, num.toNat?, cpu.toNat? with
    | some ms, some num, some cpu => started w { kind := .persistent, cap := resolvePersistent ms num cpu }
    | _, _, _ => (w, "bad-op")
  | ["pool.start", "multi", mn, mx, cpu, enf] => some <|
    match mn.toNat?, mx.toNat?, cpu.toNat?, enf with
    | some mn, some mx, some cpu, "0" =>
      started w { kind := .multi, cap := resolveMulti mx cpu, minP := mn, enforce := false }
    | some mn, some mx, some cpu, "1" =>
      started w { kind := .multi, cap := resolveMulti mx cpu, minP := mn, enforce := true }
    | _, _, _, _ => (w, "bad-op")
  | ["pool.start", "process", ms, cpu] => some <|
    match ms.toNat?, cpu.toNat? with
    | some ms, some cpu => started w { kind := .process, cap := resolveProcess ms cpu }
    | _, _ => (w, "bad-op")
  | ["pool.die", ids] => some <|
    match w.cfg, parseIds ids with
    | some _, some l => let p := die w.pool l; ({ w with pool := p }, render p [])
    | _, _ => (w, "bad-op")
  | ["pool.iter", q] => some <|
    match w.cfg, q.toNat? with
    | some c, some q =>
      let rep := reports c w.pool (.iter q)
      let p := iteration c w.pool q
      ({ w with pool := p }, render p rep)
    | _, _ => (w, "bad-op")
  | ["pool.beat"] => some <|
    match w.cfg with
    | some c => (w, render w.pool (reports c w.pool .beat))
    | none => (w, "bad-op")
  | _ => none

end Pynenc.Driver.C14
