import PynencModel.Model.Proto
import PynencModel.Model.AtomicService
/-
  Driver fragment for C12: as.slot <imin> <mmin> <n> <p>  /  as.can <imin> <mmin> <n> <pos|-> <t>
  (binary64 arithmetic via `rne`; rationals are written `num/den`).
-/
namespace Pynenc.Driver.C12
open Pynenc

structure St where
  unit : Unit := ()

def handle (w : St) : List String → Option (St × String)
  | ["as.slot", imin, mmin, n, p] => some <|
    match Proto.parseRat imin, Proto.parseRat mmin, n.toNat?, p.toNat? with
    | some i, some m, some n, some p =>
      (w, s!"{Proto.showRat (AS.slotStart AS.rne i n p)} {Proto.showRat (AS.slotEnd AS.rne i m n p)}")
    | _, _, _, _ => (w, "bad-op")
  | ["as.can", imin, mmin, n, pos, t] => some <|
    match Proto.parseRat imin, Proto.parseRat mmin, n.toNat?, Proto.parseRat t with
    | some i, some m, some n, some t =>
      let ps : Option (Option Nat) := if pos == "-" then some none else pos.toNat?.map some
      match ps with
      | some ps => (w, toString (AS.canRun AS.rne i m n ps t))
      | none => (w, "bad-op")
    | _, _, _, _ => (w, "bad-op")
  | _ => none

end Pynenc.Driver.C12
