import PynencModel.Model.Proto
import PynencModel.Model.Workflow
/-
  Driver fragment for C18 (deterministic workflow operations).
    wf.reset
    wf.start <w> <a> <op>*            op = r | u | t | s<call>        → ok | dup
    wf.micro <w> <a> <now> <fresh>    one backend access              → noop | get <key> hit|miss | set <key> <val>
                                                                        | launch <call> <inv>   [+ " ret <val>"]
    wf.op <w> <a> <now> <fresh>       accesses until the operation returns → ret <val> | noop
    wf.kill <w> <a>                                                    → ok
    wf.out <w> <a>                    values returned so far, oldest first
    wf.dump <w>                       records of workflow w, sorted    → <key>=<val>*
    wf.launches <w>                   launches of workflow w in order  → <call>:<inv>*
    wfold.reset | wfold.restart | wfold.run <w> <now> <fresh> <op>* | wfold.dump <w>   (design before the repair)
  Keys are printed as the code names them: random:3, counter:random, workflow:base_time, task_invocation:<call>.
  Values: g:<w>:<op>:<seed sequence> (abstract generator), t:<seconds>, c:<count>, i:<invocation>.
-/
namespace Pynenc.Driver.C18
open Pynenc Pynenc.Workflow

structure St where
  w : World := {}
  old : OldWorld := {}

def showK : OpK → String
  | .random => "random"
  | .uuid => "uuid"
  | .time => "time"

def showKey : Key → String
  | .seq k n => s!"{showK k}:{n}"
  | .counter k => s!"counter:{showK k}"
  | .baseTime => "workflow:base_time"
  | .taskInv c => s!"task_invocation:{c}"

def showVal : Val → String
  | .gen w k s => s!"g:{w}:{showK k}:{s}"
  | .time t => s!"t:{t}"
  | .count n => s!"c:{n}"
  | .inv i => s!"i:{i}"

def parseOp (t : String) : Option Op :=
  if t == "r" then some (.det .random)
  else if t == "u" then some (.det .uuid)
  else if t == "t" then some (.det .time)
  else match t.toList with
    | 's' :: rest => (String.ofList rest).toNat?.map Op.sub
    | _ => none

def parseOps : List String → Option (List Op)
  | [] => some []
  | t :: ts =>
    match parseOp t, parseOps ts with
    | some o, some r => some (o :: r)
    | _, _ => none

def hm (o : Option Val) : String := if o.isSome then "hit" else "miss"

/-- the backend access `stepExec` performs from this state (mirrors its branches) -/
def describe (w : Nat) (st : Store) (e : Exec) (fresh : Nat) : String :=
  match e.phase with
  | .idle =>
    match e.body[e.out.length]? with
    | none => "noop"
    | some (.det k) => let key := Key.seq k (e.ctr.get k + 1); s!"get {showKey key} {hm (st.get? (w, key))}"
    | some (.sub c) => s!"get {showKey (.taskInv c)} {hm (st.get? (w, .taskInv c))}"
  | .baseGet _ => s!"get {showKey .baseTime} {hm (st.get? (w, .baseTime))}"
  | .baseSet _ b => s!"set {showKey .baseTime} {showVal (.time b)}"
  | .seqSet k n v => s!"set {showKey (.seq k n)} {showVal v}"
  | .cntGet k _ _ => s!"get {showKey (.counter k)} {hm (st.get? (w, .counter k))}"
  | .cntSet k n _ cur => s!"set {showKey (.counter k)} {showVal (.count (max cur n))}"
  | .launch c => s!"launch {c} {fresh}"
  | .subSet c i => s!"set {showKey (.taskInv c)} {showVal (.inv i)}"

def outLen (s : World) (w a : Nat) : Nat :=
  match s.execs.get? (w, a) with
  | some e => e.out.length
  | none => 0

def lastRet (s : World) (w a : Nat) : String :=
  match s.execs.get? (w, a) with
  | some e => match e.out with
    | x :: _ => s!"ret {showVal x.val}"
    | [] => "noop"
  | none => "noop"

def strLe (a b : String) : Bool := !(decide (b < a))

def dump (st : Store) (w : Nat) : String :=
  " ".intercalate (sortBy strLe ((recordsOf st w).map fun p => s!"{showKey p.1}={showVal p.2}"))

def handle (s : St) : List String → Option (St × String)
  | ["wf.reset"] => some ({ s with w := {} }, "ok")
  | "wf.start" :: w :: a :: ops => some <|
    match w.toNat?, a.toNat?, parseOps ops with
    | some w, some a, some body =>
      if s.w.execs.has (w, a) then (s, "dup") else ({ s with w := s.w.apply (.start w a body) }, "ok")
    | _, _, _ => (s, "bad-op")
  | ["wf.micro", w, a, now, fresh] => some <|
    match w.toNat?, a.toNat?, now.toNat?, fresh.toNat? with
    | some w, some a, some now, some fresh =>
      match s.w.execs.get? (w, a) with
      | none => (s, "noop")
      | some e =>
        if e.live then
          let d := describe w s.w.store e fresh
          let s' := s.w.apply (.step w a now fresh)
          let r := if outLen s' w a > e.out.length then " " ++ lastRet s' w a else ""
          ({ s with w := s' }, d ++ r)
        else (s, "noop")
    | _, _, _, _ => (s, "bad-op")
  | ["wf.op", w, a, now, fresh] => some <|
    match w.toNat?, a.toNat?, now.toNat?, fresh.toNat? with
    | some w, some a, some now, some fresh =>
      let s' := s.w.runOp w a now fresh
      if outLen s' w a > outLen s.w w a then ({ s with w := s' }, lastRet s' w a) else ({ s with w := s' }, "noop")
    | _, _, _, _ => (s, "bad-op")
  | ["wf.kill", w, a] => some <|
    match w.toNat?, a.toNat? with
    | some w, some a => ({ s with w := s.w.apply (.kill w a) }, "ok")
    | _, _ => (s, "bad-op")
  | ["wf.out", w, a] => some <|
    match w.toNat?, a.toNat? with
    | some w, some a =>
      match s.w.execs.get? (w, a) with
      | some e => (s, " ".intercalate (e.out.reverse.map fun x => showVal x.val))
      | none => (s, "none")
    | _, _ => (s, "bad-op")
  | ["wf.dump", w] => some <|
    match w.toNat? with
    | some w => (s, dump s.w.store w)
    | none => (s, "bad-op")
  | ["wf.launches", w] => some <|
    match w.toNat? with
    | some w => (s, " ".intercalate ((s.w.launches.filter fun l => decide (l.1 = w)).map fun l => s!"{l.2.1}:{l.2.2}"))
    | none => (s, "bad-op")
  | ["wfold.reset"] => some ({ s with old := {} }, "ok")
  | ["wfold.restart"] => some ({ s with old := s.old.restart }, "ok")
  | "wfold.run" :: w :: now :: fresh :: ops => some <|
    match w.toNat?, now.toNat?, fresh.toNat?, parseOps ops with
    | some w, some now, some fresh, some body =>
      let r := s.old.runBody w body now fresh
      ({ s with old := r.1 }, " ".intercalate (r.2.map showVal))
    | _, _, _, _ => (s, "bad-op")
  | ["wfold.dump", w] => some <|
    match w.toNat? with
    | some w => (s, dump s.old.store w)
    | none => (s, "bad-op")
  | _ => none

end Pynenc.Driver.C18
