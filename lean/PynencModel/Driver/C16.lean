import PynencModel.Model.Proto
import PynencModel.Model.Backends
import PynencModel.Gen.StatusTable
/-
  Driver fragment for C16 (reference model of orchestrator + wait graph + broker + state backend).
  String arguments are Proto tokens (`-` None, `e` empty, `x<hex>`); answers print ids raw (the harness
  uses labels without blanks).  Status lists are comma-joined enum values or `-`.

  state-changing:
    c16.reset
    c16.reg <rid> <cls> <index 0|1> <now> ( <id> <task> <call> <parent|-> <nargs> (<k> <v>)^nargs )*
    c16.set <id> <status> <rid> <cls> <now>        c16.incr <id>
    c16.hb <elig 0|1> <now> <rid>*                 c16.svc <rid> <start> <end>
    c16.wait <waiter|-|e> <id>*                    c16.release <id>
    c16.route <id>      c16.retrieve               c16.pset <id> <now>     c16.apurge <now> <keep>
    c16.result <id> <v> c16.exc <id> <v>           c16.hist <id> <status> <owner|-> <rid> <cls> <now>
    c16.wf <wf> <key> <v>                          c16.rctx ( <rid> <cls> <parent|-> )*
    c16.purge <broker|orch|sb|app>
  queries (`<f>` = mem | sql, the family whose algorithm answers):
    c16.q.status <id> | c16.q.retries <id> | c16.q.task <task> | c16.q.call <call>
    c16.q.existing <f> <task> <statuses> (<k> <v>)* | c16.q.page <f> <task|-> <statuses> <limit> <offset>
    c16.q.count <task|-> <statuses> | c16.q.fbs <statuses> <id>* | c16.q.active <now> <timeout> <-|0|1>
    c16.q.blocking <f> <limit> | c16.q.pscan <now> <mp> | c16.q.rscan <f> <now> <timeout> | c16.q.queue
    c16.q.inv <id> | c16.q.children <id> | c16.q.result <id> | c16.q.exc <id> | c16.q.history <id>
    c16.q.wf <wf> <key> | c16.q.rctx <rid> | c16.q.rmatch <part> | c16.q.appinfo
-/
namespace Pynenc.Driver.C16
open Pynenc Pynenc.Proto Pynenc.Backends

structure St where
  w : World := {}

def str (t : String) : Option String := match untok t with | some (some s) => some s | _ => none

def strs (l : List String) : Option (List String) := l.mapM str

def parseStatuses (s : String) : Option (List Status) :=
  if s == "-" then some [] else (s.splitOn ",").mapM Status.ofName?

def parsePairs : List String → Option (List (String × String))
  | [] => some []
  | k :: v :: rest =>
    match str k, str v, parsePairs rest with
    | some k, some v, some r => some ((k, v) :: r)
    | _, _, _ => none
  | _ => none

def parseFam (s : String) : Option Fam := if s == "mem" then some .mem else if s == "sql" then some .sql else none

/-- items of `c16.reg`; `fuel` bounds the recursion by the token count -/
def parseItems : Nat → List String → Option (List Item)
  | _, [] => some []
  | 0, _ => none
  | fuel + 1, id :: task :: call :: parent :: n :: rest =>
    match str id, str task, str call, untok parent, n.toNat? with
    | some i, some t, some c, some p, some n =>
      match parsePairs (rest.take (2 * n)), parseItems fuel (rest.drop (2 * n)) with
      | some args, some more =>
        if (rest.take (2 * n)).length = 2 * n then
          some ({ id := i, info := { task := t, call := c, args := args }, parent := p } :: more)
        else none
      | _, _ => none
    | _, _, _, _, _ => none
  | _, _ => none

def parseChain : List String → Option (List (String × RCtx))
  | [] => some []
  | r :: c :: p :: rest =>
    match str r, str c, untok p, parseChain rest with
    | some r, some c, some p, some more => some ((r, { cls := c, parent := p }) :: more)
    | _, _, _, _ => none
  | _ => none

def op (s : St) (o : Op) : Option (St × String) :=
  let r := Backends.step Gen.table s.w o
  some ({ w := r.1 }, r.2)

def q (s : St) (x : Query) : Option (St × String) := some (s, Backends.observe Gen.table s.w x)

def bad (s : St) : Option (St × String) := some (s, "bad-op")

def handle (s : St) : List String → Option (St × String)
  | ["c16.reset"] => some ({}, "ok")
  | "c16.reg" :: rid :: cls :: idx :: now :: items =>
    match str rid, str cls, now.toInt?, parseItems items.length items with
    | some r, some c, some n, some its => op s (.register its r c (idx == "1") n)
    | _, _, _, _ => bad s
  | ["c16.set", id, st, rid, cls, now] =>
    match str id, Status.ofName? st, str rid, str cls, now.toInt? with
    | some i, some st, some r, some c, some n => op s (.setStatus i st r c n)
    | _, _, _, _, _ => bad s
  | ["c16.incr", id] => match str id with | some i => op s (.incrRetries i) | none => bad s
  | "c16.hb" :: elig :: now :: rids =>
    match now.toInt?, strs rids with
    | some n, some rs => op s (.heartbeat rs (elig == "1") n)
    | _, _ => bad s
  | ["c16.svc", rid, a, b] =>
    match str rid, a.toInt?, b.toInt? with
    | some r, some a, some b => op s (.recordService r a b)
    | _, _, _ => bad s
  | "c16.wait" :: waiter :: ids =>
    match untok waiter, strs ids with
    | some w, some l => op s (.wait w l)
    | _, _ => bad s
  | ["c16.release", id] => match str id with | some i => op s (.release i) | none => bad s
  | ["c16.route", id] => match str id with | some i => op s (.route i) | none => bad s
  | ["c16.retrieve"] => op s .retrieve
  | ["c16.pset", id, now] =>
    match str id, now.toInt? with
    | some i, some n => op s (.setUpPurge i n)
    | _, _ => bad s
  | ["c16.apurge", now, keep] =>
    match now.toInt?, keep.toInt? with
    | some n, some k => op s (.autoPurge n k)
    | _, _ => bad s
  | ["c16.result", id, v] =>
    match str id, str v with
    | some i, some v => op s (.setResult i v)
    | _, _ => bad s
  | ["c16.exc", id, v] =>
    match str id, str v with
    | some i, some v => op s (.setException i v)
    | _, _ => bad s
  | ["c16.hist", id, st, owner, rid, cls, now] =>
    match str id, Status.ofName? st, untok owner, str rid, str cls, now.toInt? with
    | some i, some st, some ow, some r, some c, some n => op s (.addHistory i st ow r c n)
    | _, _, _, _, _, _ => bad s
  | ["c16.wf", wf, key, v] =>
    match str wf, str key, str v with
    | some a, some b, some c => op s (.setWf a b c)
    | _, _, _ => bad s
  | "c16.rctx" :: chain =>
    match parseChain chain with
    | some ch => op s (.storeRctx ch)
    | none => bad s
  | ["c16.purge", what] =>
    if what == "broker" then op s .brokerPurge
    else if what == "orch" then op s .orchPurge
    else if what == "sb" then op s .sbPurge
    else if what == "app" then op s .appPurge
    else bad s
  -- queries ---------------------------------------------------------------------------------------
  | ["c16.q.status", id] => match str id with | some i => q s (.status i) | none => bad s
  | ["c16.q.retries", id] => match str id with | some i => q s (.retries i) | none => bad s
  | ["c16.q.task", t] => match str t with | some t => q s (.taskIds t) | none => bad s
  | ["c16.q.call", c] => match str c with | some c => q s (.callIds c) | none => bad s
  | "c16.q.existing" :: f :: task :: sts :: kv =>
    match parseFam f, str task, parseStatuses sts, parsePairs kv with
    | some f, some t, some ss, some key => q s (.existing f t ss key)
    | _, _, _, _ => bad s
  | ["c16.q.page", f, task, sts, lim, off] =>
    match parseFam f, untok task, parseStatuses sts, lim.toInt?, off.toInt? with
    | some f, some t, some ss, some l, some o => q s (.page f t ss l o)
    | _, _, _, _, _ => bad s
  | ["c16.q.count", task, sts] =>
    match untok task, parseStatuses sts with
    | some t, some ss => q s (.count t ss)
    | _, _ => bad s
  | "c16.q.fbs" :: sts :: ids =>
    match parseStatuses sts, strs ids with
    | some ss, some l => q s (.filterByStatus l ss)
    | _, _ => bad s
  | ["c16.q.active", now, to, elig] =>
    match now.toInt?, to.toInt? with
    | some n, some t => q s (.active n t (if elig == "-" then none else some (elig == "1")))
    | _, _ => bad s
  | ["c16.q.blocking", f, lim] =>
    match parseFam f, lim.toInt? with
    | some f, some l => q s (.blocking f l)
    | _, _ => bad s
  | ["c16.q.pscan", now, mp] =>
    match now.toInt?, mp.toInt? with
    | some n, some m => q s (.pscan n m)
    | _, _ => bad s
  | ["c16.q.rscan", f, now, to] =>
    match parseFam f, now.toInt?, to.toInt? with
    | some f, some n, some t => q s (.rscan f n t)
    | _, _, _ => bad s
  | ["c16.q.queue"] => q s .queueCount
  | ["c16.q.inv", id] => match str id with | some i => q s (.hasInv i) | none => bad s
  | ["c16.q.children", id] => match str id with | some i => q s (.children i) | none => bad s
  | ["c16.q.result", id] => match str id with | some i => q s (.result i) | none => bad s
  | ["c16.q.exc", id] => match str id with | some i => q s (.exception i) | none => bad s
  | ["c16.q.history", id] => match str id with | some i => q s (.history i) | none => bad s
  | ["c16.q.wf", wf, key] =>
    match str wf, str key with
    | some a, some b => q s (.wf a b)
    | _, _ => bad s
  | ["c16.q.rctx", rid] => match str rid with | some r => q s (.rctx r) | none => bad s
  | ["c16.q.rmatch", p] => match untok p with | some (some p) => q s (.matchRctx p) | _ => bad s
  | ["c16.q.appinfo"] => q s .appInfo
  | _ => none

end Pynenc.Driver.C16
