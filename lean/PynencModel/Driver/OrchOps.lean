import PynencModel.Model.Proto
import PynencModel.Model.Recovery
import PynencModel.Model.Concurrency
import PynencModel.Model.OrchQueries
import PynencModel.Gen.StatusTable
/-
  Driver fragment for the orchestrator model (C04, C06, C07, C16): indexes, heartbeats, scans, retries,
  a FIFO queue and the recovery run.  Tokens as in Proto; lists are printed space-separated, sorted
  where the real API leaves the order unspecified.
-/
namespace Pynenc.Driver.OrchOps
open Pynenc Pynenc.Proto

structure St where
  orch  : Orch := {}
  queue : List String := []
  conf  : AMap String CC.TaskConf := []
  batch : Option (String × Option String × Int × List (String × String × List (String × String))) := none

def St.sys (w : St) : CC.Sys := { orch := w.orch, queue := w.queue }
def St.confOf (w : St) (t : String) : CC.TaskConf := (w.conf.get? t).getD {}

def showRec (r : ORec) : String := s!"{r.status.name} {tok r.owner} {r.ts}"

def showSetErr : SetErr → String
  | .status .transition => "err transition"
  | .status .ownership => "err ownership"
  | .unknownId => "err keyerror"

def strLe (a b : String) : Bool := a ≤ b

def showIds (l : List String) (sorted : Bool := true) : String :=
  let l := if sorted then sortBy strLe l else l
  if l.isEmpty then "[]" else " ".intercalate (l.map fun s => tok (some s))

def parsePairs : List String → Option (List (String × String))
  | [] => some []
  | k :: v :: rest =>
    match untok k, untok v, parsePairs rest with
    | some (some k), some (some v), some r => some ((k, v) :: r)
    | _, _, _ => none
  | _ => none

def parseStatuses (s : String) : Option (List Status) :=
  if s == "-" then some [] else (s.splitOn ",").mapM Status.ofName?

def parseIds (l : List String) : Option (List String) :=
  l.mapM fun t => match untok t with | some (some s) => some s | _ => none

def bad (w : St) : Option (St × String) := some (w, "bad-op")

def handle (w : St) : List String → Option (St × String)
  | ["o.reset"] => some ({}, "ok")
  | "o.reg" :: id :: task :: call :: rid :: ts :: kv =>
    match untok id, untok task, untok call, untok rid, ts.toInt?, parsePairs kv with
    | some (some i), some (some t), some (some c), some rd, some ts, some args =>
      some ({ w with orch := w.orch.registerInv i { task := t, call := c, args := args } rd ts }, "ok")
    | _, _, _, _, _, _ => bad w
  | ["o.set", id, req, rid, ts] =>
    match untok id, Status.ofName? req, untok rid, ts.toInt? with
    | some (some i), some rq, some rd, some t =>
      let (o, res) := w.orch.setStatus Gen.table i rq rd t
      some ({ w with orch := o }, match res with | .ok r => "ok " ++ showRec r | .error e => showSetErr e)
    | _, _, _, _ => bad w
  | ["o.inject", id, st, owner, ts] =>
    match untok id, Status.ofName? st, untok owner, ts.toInt? with
    | some (some i), some s, some ow, some t =>
      some ({ w with orch := { w.orch with recs := w.orch.recs.set i { status := s, owner := ow, ts := t } } }, "ok")
    | _, _, _, _ => bad w
  | ["o.get", id] =>
    match untok id with
    | some (some i) => some (w, match w.orch.get i with | some r => showRec r | none => "err keyerror")
    | _ => bad w
  | ["o.index", id] =>
    match untok id with
    | some (some i) => some ({ w with orch := w.orch.indexArgs i }, "ok")
    | _ => bad w
  | "o.existing" :: task :: sts :: kv =>
    match untok task, parseStatuses sts, parsePairs kv with
    | some (some t), some ss, some key => some (w, showIds (w.orch.existing t key ss))
    | _, _, _ => bad w
  | "o.hb" :: elig :: ts :: rids =>
    match ts.toInt?, parseIds rids with
    | some t, some rs => some ({ w with orch := w.orch.heartbeat rs (elig == "1") t }, "ok")
    | _, _ => bad w
  | ["o.active", now, to, elig] =>
    match now.toInt?, to.toInt? with
    | some n, some t =>
      let e : Option Bool := if elig == "-" then none else some (elig == "1")
      some (w, showIds (w.orch.activeRunners n t e) false)
    | _, _ => bad w
  | ["o.pscan", now, mp] =>
    match now.toInt?, mp.toInt? with
    | some n, some m => some (w, showIds (w.orch.pendingScan n m))
    | _, _ => bad w
  | ["o.rscan.mem", now, to] =>
    match now.toInt?, to.toInt? with
    | some n, some t => some (w, showIds (w.orch.runningScanMem n t))
    | _, _ => bad w
  | ["o.rscan.sql", now, to] =>
    match now.toInt?, to.toInt? with
    | some n, some t => some (w, showIds (w.orch.runningScanSql n t))
    | _, _ => bad w
  | ["o.retries.incr", id] =>
    match untok id with
    | some (some i) => some ({ w with orch := w.orch.incrRetries i }, "ok")
    | _ => bad w
  | ["o.retries.get", id] =>
    match untok id with
    | some (some i) => some (w, toString (w.orch.getRetries i))
    | _ => bad w
  | ["o.forget", id] =>            -- one purge-due invocation leaves the orchestrator (`auto_purge` / `clean_up_invocation`)
    match untok id with
    | some (some i) => some ({ w with orch := w.orch.forget i }, "ok")
    | _ => bad w
  | ["o.push", id] =>
    match untok id with
    | some (some i) => some ({ w with queue := w.queue ++ [i] }, "ok")
    | _ => bad w
  | ["o.queue"] => some (w, showIds w.queue false)
  -- one recovery run: kind, recovery runner, now, limit (µs), timestamp for the writes,
  -- then optionally `victim req reqrid`: an environment request executed just before the run's
  -- request for `victim` (an owner that moved on between scan and transition)
  | "o.recover" :: kind :: rid :: now :: lim :: _ts :: rest =>
    match untok rid, now.toInt?, lim.toInt? with
    | some rd, some n, some l =>
      let scan := if kind == "pending" then w.orch.pendingScan n l else w.orch.runningScanSql n l
      let target : Status := if kind == "pending" then .pendingRecovery else .runningRecovery
      let env : Option (String × Recovery.Req) :=
        match rest with
        | [v, rq, rr] => match untok v, Status.ofName? rq, untok rr with
          | some (some v), some rq, some rr => some (v, (v, rq, rr))
          | _, _, _ => none
        | _ => none
      let plan := scan.map fun i => (i, match env with | some (v, q) => if v = i then [q] else [] | none => [])
      let (o1, taken) := Recovery.takePhase Gen.table target rd w.orch plan
      let (o2, q2, ok) := Recovery.reroutePhase Gen.table rd o1 w.queue (taken.map fun i => (i, []))
      some ({ orch := o2, queue := q2 }, s!"{if ok then "done" else "aborted"} scan {showIds scan} taken {showIds taken}")
    | _, _, _ => bad w
  -- concurrency control -------------------------------------------------------------------------
  | "cc.conf" :: task :: reg :: run :: rse :: rer :: keys =>
    match untok task, CC.Mode.ofName? reg, CC.Mode.ofName? run, parseIds keys with
    | some (some t), some rg, some rn, some ks =>
      some ({ w with conf := w.conf.set t { regMode := rg, runMode := rn, keyArgs := ks, raiseOnDiff := rse == "1", rerouteOnCC := rer == "1" } }, "ok")
    | _, _, _, _ => bad w
  | "cc.route" :: task :: call :: fresh :: rid :: ts :: kv =>
    match untok task, untok call, untok fresh, untok rid, ts.toInt?, parsePairs kv with
    | some (some t), some (some c), some (some f), some rd, some ts, some args =>
      let (s', res) := CC.routeCall w.sys (w.confOf t) t c args f rd ts
      some ({ w with orch := s'.orch, queue := s'.queue },
        match res with
        | .new i => "new " ++ tok (some i) | .reused i => "reused " ++ tok (some i)
        | .reusedArgs i => "reused-args " ++ tok (some i) | .errDiff => "err diffargs")
    | _, _, _, _, _, _ => bad w
  | ["cc.batch.begin", task, rid, ts] =>
    match untok task, untok rid, ts.toInt? with
    | some (some t), some rd, some ts => some ({ w with batch := some (t, rd, ts, []) }, "ok")
    | _, _, _ => bad w
  | "cc.batch.add" :: id :: call :: kv =>
    match w.batch, untok id, untok call, parsePairs kv with
    | some (t, rd, ts, cs), some (some i), some (some c), some args => some ({ w with batch := some (t, rd, ts, cs ++ [(i, c, args)]) }, "ok")
    | _, _, _, _ => bad w
  | ["cc.batch.end"] =>
    match w.batch with
    | some (t, rd, ts, cs) =>
      let s' := CC.routeBatch w.sys (w.confOf t) t cs rd ts
      some ({ w with orch := s'.orch, queue := s'.queue, batch := none }, "ok")
    | none => bad w
  | ["cc.poll", n, rid, ts] =>
    match n.toNat?, untok rid, ts.toInt? with
    | some n, some rd, some ts =>
      let (s', out) := CC.poll Gen.table w.confOf w.sys n rd ts
      some ({ w with orch := s'.orch, queue := s'.queue },
        match out with | .ok c => "ok " ++ showIds c false | .raised c => "raised " ++ showIds c false)
    | _, _, _ => bad w
  | "cc.pollb" :: n :: rid :: ts :: bs =>
    match n.toNat?, untok rid, ts.toInt?, parseIds bs with
    | some n, some rd, some ts, some b =>
      let (s', out) := CC.pollB Gen.table w.confOf w.sys n rd ts b
      some ({ w with orch := s'.orch, queue := s'.queue },
        match out with | .ok c => "ok " ++ showIds c false | .raised c => "raised " ++ showIds c false)
    | _, _, _, _ => bad w
  | ["cc.start", id, rid, ts] =>
    match untok id, untok rid, ts.toInt? with
    | some (some i), some rd, some ts =>
      let (s', ok) := CC.startRun Gen.table w.confOf w.sys i rd ts
      some ({ w with orch := s'.orch, queue := s'.queue }, toString ok)
    | _, _, _ => bad w
  | "o.queue.set" :: ids =>
    match parseIds ids with
    | some q => some ({ w with queue := q }, "ok")
    | none => bad w
  | ["o.pop"] =>
    match w.queue with
    | [] => some (w, "-")
    | i :: q => some ({ w with queue := q }, tok (some i))
  | ["o.statuses"] =>
    some (w, " ".intercalate ((sortBy (fun a b => strLe a.1 b.1) w.orch.recs).map fun (i, r) => s!"{tok (some i)}={r.status.name}/{tok r.owner}"))
  | _ => none

end Pynenc.Driver.OrchOps
