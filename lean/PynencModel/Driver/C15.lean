import PynencModel.Model.Proto
import PynencModel.Model.CallId
import PynencModel.Model.CDS
import PynencModel.Model.Json
/-
  Driver fragment for C15.

  identity   cid.esc <s> | cid.pre {<k> <v>}* | cid.parse <text> | cid.tkey <m> <f> | cid.tfrom <key>
             cid.ckey <m> <f> <a> | cid.cfrom <key>
             cid.bind <np> {<name> <default|->}* <npos> {<val>}* <nkw> {<name> <val>}*
             cid.batch <nc> {<k> <v>}* <no> {<k> <v>}*
             cid.batchcall <np> {<name> <default|->}* <nc> {<k> <v>}* <no> {<k> <v>}*
  store      cds.new <disabled> <min> <max> <cache> | cds.obj <addr> <ser> <sha> <str|-> | cds.ser <addr> <disable>
             cds.res <data> | cds.serf <addr> | cds.purge | cds.fpurge | cds.fres <data> | cds.dis <key> {<name>}*
  json       json.builtins {<name>}* | json.class <mod> <qual> <exc|obj|enum0|enum1> <members tree>
             json.enc <tree> | json.recon <tree> | json.rt <tree> | json.wf <tree>
  Strings are tokens of `Proto` (`x<hex utf-8>`, `e`, `-`); trees use the one-token syntax of `parseVal`.
-/
namespace Pynenc.Driver.C15
open Pynenc Pynenc.Proto

/-! ### tokens -/

def str? (t : String) : Option (List Char) :=
  match untok t with
  | some (some s) => some s.toList
  | _ => none

def tokS (s : List Char) : String := tok (some (String.ofList s))

def pairs? : List String → Option (List (List Char × List Char))
  | [] => some []
  | k :: v :: rest =>
    match str? k, str? v, pairs? rest with
    | some k', some v', some r => some ((k', v') :: r)
    | _, _, _ => none
  | _ => none

def showPairs (l : List (List Char × List Char)) : String :=
  " ".intercalate (l.flatMap fun p => [tokS p.1, tokS p.2])

def keysDistinct (l : List (List Char × List Char)) : Bool :=
  let ks := l.map (·.1)
  ks.length == (dedup ks).length

def takeN {α : Type} : Nat → List α → Option (List α × List α)
  | 0, l => some ([], l)
  | _ + 1, [] => none
  | n + 1, x :: xs => (takeN n xs).map fun (a, b) => (x :: a, b)

/-! ### trees of `Model/Json` as one token -/

open Pynenc.Json in
mutual
def showVal : PyVal → String
  | .none => "N"
  | .bool true => "T"
  | .bool false => "F"
  | .int i => s!"I{i};"
  | .float b => s!"D{b};"
  | .str s => "S" ++ (tok (some s)) ++ ";"
  | .list xs => s!"L{lenL xs};" ++ showL xs
  | .tuple xs => s!"U{lenL xs};" ++ showL xs
  | .dict kvs => s!"M{lenD kvs};" ++ showD kvs
  | .enum m q n v => "E" ++ (if n then "1" else "0") ++ "S" ++ tok (some m) ++ ";S" ++ tok (some q) ++ ";" ++ showVal v
  | .exc m q args msg =>
    "XS" ++ tok (some m) ++ ";S" ++ tok (some q) ++ ";S" ++ tok (some msg) ++ s!";{lenL args};" ++ showL args
  | .obj m q d => "OS" ++ tok (some m) ++ ";S" ++ tok (some q) ++ ";" ++ showVal d
def showL : PyList → String
  | .nil => ""
  | .cons v r => showVal v ++ showL r
def showD : PyDict → String
  | .nil => ""
  | .cons k v r => "S" ++ tok (some k) ++ ";" ++ showVal v ++ showD r
def lenL : PyList → Nat
  | .nil => 0
  | .cons _ r => lenL r + 1
def lenD : PyDict → Nat
  | .nil => 0
  | .cons _ _ r => lenD r + 1
end

/-- characters up to the next `;` -/
def untilSemi : List Char → Option (List Char × List Char)
  | [] => none
  | c :: rest => if c = ';' then some ([], rest) else (untilSemi rest).map fun (a, b) => (c :: a, b)

def pStr (inp : List Char) : Option (String × List Char) :=
  match inp with
  | 'S' :: rest =>
    match untilSemi rest with
    | some (t, r) =>
      match untok (String.ofList t) with
      | some (some s) => some (s, r)
      | _ => none
    | none => none
  | _ => none

def pNat (inp : List Char) : Option (Nat × List Char) :=
  match untilSemi inp with
  | some (t, r) => (String.ofList t).toNat?.map fun n => (n, r)
  | none => none

open Pynenc.Json in
mutual
def parseVal : Nat → List Char → Option (PyVal × List Char)
  | 0, _ => none
  | _ + 1, [] => none
  | fuel + 1, c :: rest =>
    if c = 'N' then some (.none, rest)
    else if c = 'T' then some (.bool true, rest)
    else if c = 'F' then some (.bool false, rest)
    else if c = 'I' then
      match untilSemi rest with
      | some (t, r) => (String.ofList t).toInt?.map fun i => (.int i, r)
      | none => none
    else if c = 'D' then (pNat rest).map fun (n, r) => (.float n, r)
    else if c = 'S' then (pStr (c :: rest)).map fun (s, r) => (.str s, r)
    else if c = 'L' then
      match pNat rest with
      | some (n, r) => (parseL fuel n r).map fun (xs, r') => (.list xs, r')
      | none => none
    else if c = 'U' then
      match pNat rest with
      | some (n, r) => (parseL fuel n r).map fun (xs, r') => (.tuple xs, r')
      | none => none
    else if c = 'M' then
      match pNat rest with
      | some (n, r) => (parseD fuel n r).map fun (kvs, r') => (.dict kvs, r')
      | none => none
    else if c = 'E' then
      match rest with
      | f :: r0 =>
        match pStr r0 with
        | some (m, r1) =>
          match pStr r1 with
          | some (q, r2) => (parseVal fuel r2).map fun (v, r3) => (.enum m q (f = '1') v, r3)
          | none => none
        | none => none
      | [] => none
    else if c = 'X' then
      match pStr rest with
      | some (m, r1) =>
        match pStr r1 with
        | some (q, r2) =>
          match pStr r2 with
          | some (msg, r3) =>
            match pNat r3 with
            | some (n, r4) => (parseL fuel n r4).map fun (xs, r5) => (.exc m q xs msg, r5)
            | none => none
          | none => none
        | none => none
      | none => none
    else if c = 'O' then
      match pStr rest with
      | some (m, r1) =>
        match pStr r1 with
        | some (q, r2) => (parseVal fuel r2).map fun (v, r3) => (.obj m q v, r3)
        | none => none
      | none => none
    else none
def parseL : Nat → Nat → List Char → Option (PyList × List Char)
  | 0, _, _ => none
  | _ + 1, 0, inp => some (.nil, inp)
  | fuel + 1, n + 1, inp =>
    match parseVal fuel inp with
    | some (v, r) => (parseL fuel n r).map fun (xs, r') => (.cons v xs, r')
    | none => none
def parseD : Nat → Nat → List Char → Option (PyDict × List Char)
  | 0, _, _ => none
  | _ + 1, 0, inp => some (.nil, inp)
  | fuel + 1, n + 1, inp =>
    match pStr inp with
    | some (k, r0) =>
      match parseVal fuel r0 with
      | some (v, r) => (parseD fuel n r).map fun (kvs, r') => (.cons k v kvs, r')
      | none => none
    | none => none
end

def tree? (t : String) : Option Json.PyVal :=
  let cs := t.toList
  match parseVal (cs.length + 1) cs with
  | some (v, []) => some v
  | _ => none

def showR : Json.R → String
  | .ok v => "ok " ++ showVal v
  | .error .raises => "err raises"
  | .error .unmodelled => "unmodelled"

/-! ### state -/

structure HeapCell where
  content : List Char
  strVal : Option (List Char)

structure St where
  conf : CDS.Conf := {}
  store : CDS.Store CDS.Obj := {}
  heap : AMap Nat HeapCell := []
  hashes : AMap (List Char) (List Char) := []
  reg : Json.Registry := {}

def St.ser (w : St) : CDS.Obj → List Char
  | .caller a => match AMap.get? w.heap a with
    | some c => c.content
    | none => []
  | .fresh s => s

def St.asStr (w : St) : CDS.Obj → Option (List Char)
  | .caller a => match AMap.get? w.heap a with
    | some c => c.strVal
    | none => none
  | .fresh _ => none

/-- the content hash: the table of digests the harness computed with hashlib -/
def St.hash (w : St) (s : List Char) : List Char := (AMap.get? w.hashes s).getD "?".toList

def bool? (t : String) : Option Bool := if t == "1" then some true else if t == "0" then some false else none

/-! ### signature binding lines -/

def params? : Nat → List String → Option (List (CallId.Param String) × List String)
  | 0, l => some ([], l)
  | n + 1, name :: dflt :: rest =>
    match str? name, untok dflt, params? n rest with
    | some nm, some d, some (ps, r) => some (⟨nm, d⟩ :: ps, r)
    | _, _, _ => none
  | _ + 1, _ => none

def vals? : Nat → List String → Option (List String × List String)
  | 0, l => some ([], l)
  | n + 1, v :: rest =>
    match untok v, vals? n rest with
    | some (some s), some (vs, r) => some (s :: vs, r)
    | _, _ => none
  | _ + 1, [] => none

def kws? : Nat → List String → Option (List (List Char × String) × List String)
  | 0, l => some ([], l)
  | n + 1, k :: v :: rest =>
    match str? k, untok v, kws? n rest with
    | some k', some (some s), some (kw, r) => some ((k', s) :: kw, r)
    | _, _, _ => none
  | _ + 1, _ => none

def showKw (l : List (List Char × String)) : String :=
  " ".intercalate (l.flatMap fun p => [tokS p.1, tok (some p.2)])

def handle (w : St) : List String → Option (St × String)
  -- ---------------- identity
  | ["cid.esc", s] => some <|
    match str? s with
    | some s' => (w, tokS (CallId.encStr s'))
    | none => (w, "bad-op")
  | "cid.pre" :: rest => some <|
    match pairs? rest with
    | some l =>
      if !keysDistinct l then (w, "bad-op")
      else if l.isEmpty then (w, "noargs")
      else (w, tokS (CallId.preimage l))
    | none => (w, "bad-op")
  | ["cid.parse", text] => some <|
    match str? text with
    | some t =>
      match CallId.parsePairs t.length t with
      | some l => (w, "ok " ++ showPairs l)
      | none => (w, "none")
    | none => (w, "bad-op")
  | ["cid.tkey", m, f] => some <|
    match str? m, str? f with
    | some m', some f' => (w, tokS (CallId.TaskId.key ⟨m', f'⟩))
    | _, _ => (w, "bad-op")
  | ["cid.tfrom", k] => some <|
    match str? k with
    | some k' =>
      match CallId.TaskId.fromKey k' with
      | some t => (w, s!"ok {tokS t.module} {tokS t.func}")
      | none => (w, "err valueerror")
    | none => (w, "bad-op")
  | ["cid.ckey", m, f, a] => some <|
    match str? m, str? f, str? a with
    | some m', some f', some a' => (w, tokS (CallId.CallId.key ⟨⟨m', f'⟩, a'⟩))
    | _, _, _ => (w, "bad-op")
  | ["cid.cfrom", k] => some <|
    match str? k with
    | some k' =>
      match CallId.CallId.fromKey k' with
      | some c => (w, s!"ok {tokS c.task.module} {tokS c.task.func} {tokS c.argsId}")
      | none => (w, "err valueerror")
    | none => (w, "bad-op")
  | "cid.bind" :: np :: rest => some <|
    match np.toNat? with
    | some np' =>
      match params? np' rest with
      | some (ps, npos :: r1) =>
        match npos.toNat? with
        | some npos' =>
          match vals? npos' r1 with
          | some (pos, nkw :: r2) =>
            match nkw.toNat? with
            | some nkw' =>
              match kws? nkw' r2 with
              | some (kw, []) =>
                if (kw.map (·.1)).length != (dedup (kw.map (·.1))).length then (w, "bad-op")
                else match CallId.bindArgs ps pos kw with
                  | some d => (w, "ok " ++ showKw d)
                  | none => (w, "err typeerror")
              | _ => (w, "bad-op")
            | none => (w, "bad-op")
          | _ => (w, "bad-op")
        | none => (w, "bad-op")
      | _ => (w, "bad-op")
    | none => (w, "bad-op")
  | "cid.batch" :: nc :: rest => some <|
    match nc.toNat? with
    | some nc' =>
      match kws? nc' rest with
      | some (common, no :: r1) =>
        match no.toNat? with
        | some no' =>
          match kws? no' r1 with
          | some (other, []) => (w, "ok " ++ showKw (CallId.batchDict common other))
          | _ => (w, "bad-op")
        | none => (w, "bad-op")
      | _ => (w, "bad-op")
    | none => (w, "bad-op")
  | "cid.batchcall" :: np :: rest => some <|
    match np.toNat? with
    | some np' =>
      match params? np' rest with
      | some (ps, nc :: r1) =>
        match nc.toNat? with
        | some nc' =>
          match kws? nc' r1 with
          | some (common, no :: r2) =>
            match no.toNat? with
            | some no' =>
              match kws? no' r2 with
              | some (other, []) =>
                match CallId.batchCall ps common other with
                | some d => (w, "ok " ++ showKw d)
                | none => (w, "err typeerror")
              | _ => (w, "bad-op")
            | none => (w, "bad-op")
          | _ => (w, "bad-op")
        | none => (w, "bad-op")
      | _ => (w, "bad-op")
    | none => (w, "bad-op")
  -- ---------------- client data store
  | ["cds.new", dis, mn, mx, cs] => some <|
    match bool? dis, mn.toNat?, mx.toNat?, cs.toNat? with
    | some d, some a, some b, some c =>
      ({ w with conf := { disabled := d, minSize := a, maxSize := b, cacheSize := c }, store := {}, heap := [], hashes := [] }, "ok")
    | _, _, _, _ => (w, "bad-op")
  | ["cds.obj", addr, ser, sha, sv] => some <|
    match addr.toNat?, str? ser, str? sha, untok sv with
    | some a, some s, some h, some sv' =>
      ({ w with heap := AMap.set w.heap a ⟨s, sv'.map String.toList⟩, hashes := AMap.set w.hashes s h }, "ok")
    | _, _, _, _ => (w, "bad-op")
  | ["cds.ser", addr, dis] => some <|
    match addr.toNat?, bool? dis with
    | some a, some d =>
      if (AMap.get? w.heap a).isNone then (w, "bad-op")
      else
        let (st, r) := CDS.serialize w.ser w.asStr w.hash w.conf w.store (.caller a) d
        ({ w with store := st }, match r with
          | some data => "ok " ++ tokS data
          | none => "err keyerror")
    | _, _ => (w, "bad-op")
  | ["cds.serf", addr] => some <|
    match addr.toNat? with
    | some a =>
      if (AMap.get? w.heap a).isNone then (w, "bad-op")
      else
        let (st, r) := CDS.serializeFault w.ser w.asStr w.hash w.conf w.store (.caller a)
        ({ w with store := st }, match r with
          | some (some data) => "ok " ++ tokS data
          | some none => "err keyerror"
          | none => "err storefault")
    | none => (w, "bad-op")
  | ["cds.res", data] => some <|
    match str? data with
    | some d =>
      let (st, r) := CDS.resolve (fun s => some (CDS.Obj.fresh s)) w.conf w.store d
      ({ w with store := st }, match r with
        | .ok o => "ok " ++ tokS (w.ser o)
        | .keyError => "err keyerror"
        | .deserError => "err deser")
    | none => (w, "bad-op")
  | ["cds.purge"] => some ({ w with store := CDS.purge w.store }, "ok")
  | ["cds.fpurge"] => some ({ w with store := CDS.foreignPurge w.store }, "ok")
  | ["cds.fres", data] => some <|
    match str? data with
    | some d =>
      (w, match CDS.freshResolve (fun s => some (CDS.Obj.fresh s)) w.conf w.store d with
        | .ok o => "ok " ++ tokS (w.ser o)
        | .keyError => "err keyerror"
        | .deserError => "err deser")
    | none => (w, "bad-op")
  | "cds.dis" :: key :: names => some <|
    match str? key, names.mapM str? with
    | some k, some ns => (w, toString (CDS.disableFor ns k))
    | _, _ => (w, "bad-op")
  -- ---------------- json envelopes
  | "json.builtins" :: names => some <|
    match names.mapM fun t => (untok t).bind id with
    | some ns => ({ w with reg := { w.reg with builtins := ns } }, "ok")
    | none => (w, "bad-op")
  | ["json.class", m, q, kind, members] => some <|
    match untok m, untok q, tree? members with
    | some (some m'), some (some q'), some (.list ms) =>
      let k : Option Json.Kind :=
        if kind == "exc" then some .exc else if kind == "obj" then some .obj
        else if kind == "enum0" then some (.enum false ms) else if kind == "enum1" then some (.enum true ms) else none
      match k with
      | some k' => ({ w with reg := { w.reg with classes := w.reg.classes ++ [⟨m', q', k'⟩] } }, "ok")
      | none => (w, "bad-op")
    | _, _, _ => (w, "bad-op")
  | ["json.enc", t] => some <|
    match tree? t with
    | some v => (w, showVal (Json.encode v))
    | none => (w, "bad-op")
  | ["json.recon", t] => some <|
    match tree? t with
    | some v => (w, showR (Json.recon w.reg v))
    | none => (w, "bad-op")
  | ["json.rt", t] => some <|
    match tree? t with
    | some v => (w, showR (Json.roundtrip w.reg v))
    | none => (w, "bad-op")
  | ["json.wf", t] => some <|
    match tree? t with
    | some v => (w, toString (Json.wf w.reg v))
    | none => (w, "bad-op")
  | _ => none

end Pynenc.Driver.C15
