import PynencModel.Model.Proto
import PynencModel.Model.Orch
import PynencModel.Gen.StatusTable
/-
  Driver fragment for the status machine and the orchestrator's status store (C01).
  `handle` returns `none` when the operation is not one of this fragment's.
-/
namespace Pynenc.Driver.Core
open Pynenc Pynenc.Proto

structure St where
  orch : Orch := {}

def showRec (r : ORec) : String := s!"{r.status.name} {tok r.owner} {r.ts}"

def showSetErr : SetErr → String
  | .status .transition => "err transition"
  | .status .ownership => "err ownership"
  | .unknownId => "err keyerror"

def handle (w : St) : List String → Option (St × String)
  -- pure status step:  st.step <cur|-> <owner tok> <req> <rid tok>
  | ["st.step", cur, owner, req, rid] => some <|
    match Status.ofName? req, untok owner, untok rid with
    | some rq, some ow, some rd =>
      let c : Option (Option SRec) :=
        if cur == "-" then some none else (Status.ofName? cur).map fun s => some { status := s, owner := ow }
      match c with
      | some c =>
        match step Gen.table c rq rd with
        | .ok r => (w, s!"ok {r.status.name} {tok r.owner}")
        | .error .transition => (w, "err transition")
        | .error .ownership => (w, "err ownership")
      | none => (w, "bad-op")
    | _, _, _ => (w, "bad-op")
  | ["orch.reset"] => some ({ w with orch := {} }, "ok")
  | ["orch.register", id, rid, ts] => some <|
    match untok id, untok rid, ts.toInt? with
    | some (some i), some rd, some t => ({ w with orch := w.orch.register i rd t }, "ok")
    | _, _, _ => (w, "bad-op")
  -- test-only injection of an arbitrary record (the harness injects the same into the backends)
  | ["orch.inject", id, st, owner, ts] => some <|
    match untok id, Status.ofName? st, untok owner, ts.toInt? with
    | some (some i), some s, some ow, some t =>
      ({ w with orch := { w.orch with recs := w.orch.recs.set i { status := s, owner := ow, ts := t } } }, "ok")
    | _, _, _, _ => (w, "bad-op")
  | ["orch.set", id, req, rid, ts] => some <|
    match untok id, Status.ofName? req, untok rid, ts.toInt? with
    | some (some i), some rq, some rd, some t =>
      let (o, res) := w.orch.setStatus Gen.table i rq rd t
      ({ w with orch := o }, match res with | .ok r => "ok " ++ showRec r | .error e => showSetErr e)
    | _, _, _, _ => (w, "bad-op")
  | ["orch.get", id] => some <|
    match untok id with
    | some (some i) => (w, match w.orch.get i with | some r => showRec r | none => "err keyerror")
    | _ => (w, "bad-op")
  | _ => none

end Pynenc.Driver.Core
