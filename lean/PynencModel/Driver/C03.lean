import PynencModel.Model.Proto
import PynencModel.Model.Crash
import PynencModel.Gen.StatusTable
import PynencModel.Gen.Programs
/-
  Driver fragment for C03: `crash.table <program> <start status|-> <start queued>` prints the crash-point table of a
  traced program (over its recoverability-relevant effects) as 1/0 flags, then the relevant effects themselves.
-/
namespace Pynenc.Driver.C03
open Pynenc Pynenc.Crash

structure St where
  unit : Unit := ()

def program? : String → Option (List (String × String))
  | "pollClaim" => some Gen.Programs.pollClaimP
  | "runOk" => some Gen.Programs.runOkP
  | "runFail" => some Gen.Programs.runFailP
  | "runRetry" => some Gen.Programs.runRetryP
  | "killReroute" => some Gen.Programs.killRerouteP
  | "recoverPending" => some Gen.Programs.recoverPendingP
  | "clientSingle" => some Gen.Programs.clientSingleP
  | "clientSingleCC" => some Gen.Programs.clientSingleCCP
  | "clientBatch" => some Gen.Programs.clientBatchP
  | _ => none

def handle (w : St) : List String → Option (St × String)
  | ["crash.table", prog, st, q] =>
    match program? prog, q.toNat? with
    | some p, some q =>
      let start : Option (Option Status) := if st == "-" then some none else (Status.ofName? st).map some
      match start with
      | some s0 =>
        let rel := relevant p
        let tbl := crashTable Gen.table ⟨s0, q⟩ rel
        some (w, " ".intercalate (tbl.map fun b => if b then "1" else "0") ++ " | " ++
          " ".intercalate (rel.map fun e => if e.2 == "" then e.1 else e.1 ++ ":" ++ e.2))
      | none => some (w, "bad-op")
    | _, _ => some (w, "bad-op")
  -- is a given (status, queued) recoverable without a holder?
  | ["crash.protected", st, q] =>
    match q.toNat? with
    | some q =>
      let start : Option (Option Status) := if st == "-" then some none else (Status.ofName? st).map some
      match start with
      | some s0 => some (w, if protectedState Gen.table ⟨s0, q⟩ then "1" else "0")
      | none => some (w, "bad-op")
    | none => some (w, "bad-op")
  | _ => none

end Pynenc.Driver.C03
