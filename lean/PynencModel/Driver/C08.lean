import PynencModel.Model.Proto
import PynencModel.Model.Broker
/-
  Driver fragment for C08 (brokers).
    bk.mem.reset | bk.mem.route <id> | bk.mem.routemany <id>* | bk.mem.retrieve | bk.mem.count | bk.mem.purge
    bk.sql.reset | bk.sql.route <t> <id> | bk.sql.routemany (<t> <id>)* | bk.sql.retrieve | bk.sql.count | bk.sql.purge
  <id> is a string token (`-`, i.e. None, is rejected: ids are strings); <t> is the clock reading of
  the INSERT statement (a natural number, only its order matters).
  Answers: `ok`, the id token (or `-` for None), the count.
-/
namespace Pynenc.Driver.C08
open Pynenc Pynenc.Proto Pynenc.Broker

structure St where
  mem : Mem String := {}
  sql : Sql String := {}

def showOut : Out String → String
  | .unit => "ok"
  | .got o => tok o
  | .n k => toString k

/-- all tokens must be proper strings -/
def ids : List String → Option (List String)
  | [] => some []
  | t :: ts =>
    match untok t, ids ts with
    | some (some i), some r => some (i :: r)
    | _, _ => none

def stamped : List String → Option (List (Nat × String))
  | [] => some []
  | t :: i :: rest =>
    match t.toNat?, untok i, stamped rest with
    | some t, some (some i), some r => some ((t, i) :: r)
    | _, _, _ => none
  | _ => none

def memOp (w : St) (op : Op String) : St × String :=
  let r := w.mem.step op
  ({ w with mem := r.1 }, showOut r.2)

def sqlOp (w : St) (op : TOp String) : St × String :=
  let r := w.sql.step op
  ({ w with sql := r.1 }, showOut r.2)

def handle (w : St) : List String → Option (St × String)
  | ["bk.mem.reset"] => some ({ w with mem := {} }, "ok")
  | ["bk.mem.route", i] => some <|
    match untok i with
    | some (some i) => memOp w (.route i)
    | _ => (w, "bad-op")
  | "bk.mem.routemany" :: is => some <|
    match ids is with
    | some is => memOp w (.routeMany is)
    | none => (w, "bad-op")
  | ["bk.mem.retrieve"] => some (memOp w .retrieve)
  | ["bk.mem.count"] => some (memOp w .count)
  | ["bk.mem.purge"] => some (memOp w .purge)
  | ["bk.sql.reset"] => some ({ w with sql := {} }, "ok")
  | ["bk.sql.route", t, i] => some <|
    match t.toNat?, untok i with
    | some t, some (some i) => sqlOp w (.route t i)
    | _, _ => (w, "bad-op")
  | "bk.sql.routemany" :: tis => some <|
    match stamped tis with
    | some tis => sqlOp w (.routeMany tis)
    | none => (w, "bad-op")
  | ["bk.sql.retrieve"] => some (sqlOp w .retrieve)
  | ["bk.sql.count"] => some (sqlOp w .count)
  | ["bk.sql.purge"] => some (sqlOp w .purge)
  | _ => none

end Pynenc.Driver.C08
