import PynencModel.Model.Proto
import PynencModel.Model.Blocking
import PynencModel.Model.ThreadRunner
import PynencModel.Model.TreeProg
import PynencModel.Gen.StatusTable
/-
  Driver fragment for C09.

  Part A (wait graph; both blocking controls are advanced in lock-step, statuses are kept to decide
  "available for run" with the regenerated status table):
    bc.reset
    bc.status  <id> <status>          test-only injection of a status (no release)
    bc.final   <id> <status>          `set_invocation_status(id, final status)`: status + release_waiters
    bc.wait    <waiter|-|e> <id>*     `orchestrator.waiting_for_results` (None / '' waiter and [] are ignored; awaited ids that are final are released)
    bc.release <id>                   `orchestrator.release_waiters`
    bc.get     <mem|sql> <limit>      -> "<k> <sorted ids of the unbounded answer>", k = size of the limited answer
  Part B (thread runner on a call tree, deterministic round-robin schedule):
    tr.poll <n> <statuses> <queue> <edges> <bs>       one `get_invocations_to_run(n)` on a runner without threads:
        statuses = one letter per node id (r registered/runnable, p claimed, f final, a absent), queue and bs =
        ids joined by ':' (`-` = none), edges = `w>x` joined by ',' (`-` = none)
        -> "claimed=<ids> queue=<ids> blocking=<ids>" (`bad-bs` when bs is not an admissible choice of blocking ids)
    tr.run <slots> <freeWaiting 0|1> <fuel> <prog>    prog = bodies joined by ';' (`-` = empty body), actions by ',', `L:c:c` / `W:c:c`
-/
namespace Pynenc.Driver.C09
open Pynenc Pynenc.Proto Pynenc.Blocking

structure St where
  mem : MemBC String := {}
  sql : SqlBC String := []
  status : AMap String Status := []

def availOf (w : St) (id : String) : Bool :=
  match w.status.get? id with
  | some s => (Gen.table (some s)).available
  | none => false

def untokAll : List String → Option (List String)
  | [] => some []
  | t :: ts => match untok t, untokAll ts with
    | some (some s), some r => some (s :: r)
    | _, _ => none

def strLe (a b : String) : Bool := a < b || a == b

def showIds (k : Nat) (ids : List String) : String :=
  String.intercalate " " (toString k :: (sortBy strLe ids).map (fun s => tok (some s)))

def parseAct (t : String) : Option TR.Act :=
  match t.splitOn ":" with
  | "L" :: cs => (cs.mapM String.toNat?).map TR.Act.launch
  | "W" :: cs => (cs.mapM String.toNat?).map TR.Act.wait
  | _ => none

def parseBody (t : String) : Option (List TR.Act) :=
  if t == "" || t == "-" then some [] else (t.splitOn ",").mapM parseAct

def parseProg (t : String) : Option (List (List TR.Act)) := (t.splitOn ";").mapM parseBody

def parseIds (t : String) : Option (List Nat) :=
  if t == "-" then some [] else (t.splitOn ":").mapM String.toNat?

def parseEdge (t : String) : Option (Nat × Nat) :=
  match t.splitOn ">" with
  | [a, b] => match a.toNat?, b.toNat? with
    | some x, some y => some (x, y)
    | _, _ => none
  | _ => none

def parseEdges (t : String) : Option (List (Nat × Nat)) :=
  if t == "-" then some [] else (t.splitOn ",").mapM parseEdge

def parseNode (c : Char) : Option TR.NState :=
  if c == 'r' then some .registered else if c == 'p' then some (.run 0)
  else if c == 'f' then some .final else if c == 'a' then some .absent else none

def showIdsN (l : List Nat) : String := if l.isEmpty then "-" else String.intercalate ":" (l.map toString)

def handle (w : St) : List String → Option (St × String)
  | ["bc.reset"] => some ({}, "ok")
  | ["bc.status", id, st] => some <|
    match untok id, Status.ofName? st with
    | some (some i), some s => ({ w with status := w.status.set i s }, "ok")
    | _, _ => (w, "bad-op")
  | ["bc.final", id, st] => some <|
    match untok id, Status.ofName? st with
    | some (some i), some s =>
      if (Gen.table (some s)).isFinal then
        ({ mem := memStep w.mem (.release i), sql := sqlStep w.sql (.release i), status := w.status.set i s }, "ok")
      else (w, "bad-op")
    | _, _ => (w, "bad-op")
  | "bc.wait" :: waiter :: ids => some <|
    match untok waiter, untokAll ids with
    | some wo, some l =>
      if truthy wo then
        match wo with
        | some wt =>
          -- `BaseOrchestrator.waiting_for_results`: record the declarations, then release the waiters of every awaited id that
          -- has already finished (`filter_final`)
          let fin := l.filter (fun i => match w.status.get? i with | some s => (Gen.table (some s)).isFinal | none => false)
          let hist : List (Op String) := Op.wait wt l :: fin.map Op.release
          ({ w with mem := hist.foldl memStep w.mem, sql := hist.foldl sqlStep w.sql }, "ok")
        | none => (w, "ok")
      else (w, "ok")
    | _, _ => (w, "bad-op")
  | ["bc.release", id] => some <|
    match untok id with
    | some (some i) => ({ w with mem := memStep w.mem (.release i), sql := sqlStep w.sql (.release i) }, "ok")
    | _ => (w, "bad-op")
  | ["bc.get", which, limit] => some <|
    match limit.toInt? with
    | some n =>
      if which == "mem" then
        (w, showIds (memBlocking w.mem n (availOf w)).length (memBlockingAll w.mem (availOf w)))
      else if which == "sql" then
        (w, showIds (sqlBlocking w.sql n (availOf w)).length (sqlBlockingAll w.sql (availOf w)))
      else (w, "bad-op")
    | none => (w, "bad-op")
  | ["tr.poll", n, sts, queue, edges, bs] => some <|
    match n.toNat?, sts.toList.mapM parseNode, parseIds queue, parseEdges edges, parseIds bs with
    | some n, some nodes, some q, some es, some b =>
      let s : TR.Sys := { node := fun i => nodes.getD i .absent, queue := q, edges := es, threads := [], waiting := [] }
      let cfg : TR.Cfg := { slots := n }
      let blk := (List.range nodes.length).filter (TR.blocking s)
      if b.all (TR.blocking s) && b.length ≤ n && (b.eraseDups).length == b.length
          && (!b.isEmpty || n == 0 || blk.isEmpty) then
        let s' := TR.doPoll cfg s b
        (w, s!"claimed={showIdsN s'.threads} queue={showIdsN s'.queue} blocking={showIdsN blk}")
      else (w, s!"bad-bs blocking={showIdsN blk}")
    | _, _, _, _, _ => (w, "bad-op")
  | ["tr.run", slots, free, fuel, prog] => some <|
    match slots.toNat?, free.toNat?, fuel.toNat?, parseProg prog with
    | some n, some f, some fu, some bodies =>
      let P := TR.progOf bodies
      let r := TR.simulate { slots := n, freeWaiting := f != 0 } P fu
      (w, s!"wf={TR.wfb bodies} {r.1} steps={r.2.1} final={r.2.2}")
    | _, _, _, _ => (w, "bad-op")
  | _ => none

end Pynenc.Driver.C09
