/-
  One writing operation of the SQLite broker as a transaction that may be REFUSED at its COMMIT (SQLITE_BUSY: "database is
  locked" — a reader of another process keeps its lock past the busy timeout).  Core Lean only — C08.

  `send_message`:        with connection:  INSERT · COMMIT
  `retrieve_invocation`: with connection:  BEGIN IMMEDIATE · SELECT oldest · DELETE it · COMMIT
  An exception that leaves the `with` block makes sqlite3 roll the open transaction back (library semantics, trusted), and the
  call raises.  `retryInTxn` is the variant that catches the refusal and runs INSERT · COMMIT again inside the SAME open
  transaction (nothing was rolled back: the first INSERT is still pending).
-/
namespace Pynenc.BrokerTxn

variable {α : Type}

/-- outcome of one COMMIT -/
inductive Commit where
  | ok | refused
  deriving DecidableEq, Repr

/-- committed rows (oldest first) and the rows inserted by the open transaction -/
structure Db (α : Type) where
  rows    : List α
  pending : List α := []
  deriving Repr

/-- `send_message(i)` as coded: returns normally (true) or raises (false) -/
def send (q : List α) (i : α) : Commit → List α × Bool
  | .ok => (q ++ [i], true)
  | .refused => (q, false)            -- rolled back by `__exit__`, the exception reaches the caller

/-- the retrying variant: each attempt inserts again into the transaction that is still open -/
def retryInTxn (db : Db α) (i : α) : List Commit → Db α × Bool
  | [] => ({ rows := db.rows }, false)                                   -- attempts exhausted: raise, roll back
  | .ok :: _ => ({ rows := db.rows ++ (db.pending ++ [i]) }, true)
  | .refused :: cs => retryInTxn { db with pending := db.pending ++ [i] } i cs

/-- `retrieve_invocation()` as coded: `none` = the call raised -/
def retrieve (q : List α) : Commit → List α × Option (Option α)
  | .ok => match q with
    | [] => ([], some none)
    | x :: r => (r, some (some x))
  | .refused => (q, none)             -- the DELETE is rolled back: the message is still queued, nobody received it

end Pynenc.BrokerTxn
