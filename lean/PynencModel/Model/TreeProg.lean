import PynencModel.Model.ThreadRunner
/-
  Concrete programs for the thread-runner model: a call tree whose nodes are numbered 0..n-1
  (root 0) is given as the list of its bodies; `wfb` is the executable well-formedness check and
  `simulate` a deterministic round-robin scheduler (poll, then one step of every thread).
  Core Lean only.
-/
namespace Pynenc.TR

def progOf (bodies : List (List Act)) : Prog :=
  { body := fun i => bodies.getD i [], root := 0, size := bodies.length }

def launchAt (bodies : List (List Act)) (i pc : Nat) : Option (List Nat) :=
  match (bodies.getD i [])[pc]? with
  | some (Act.launch cs) => some cs
  | _ => none

def waitAt (bodies : List (List Act)) (i pc : Nat) : Option (List Nat) :=
  match (bodies.getD i [])[pc]? with
  | some (Act.wait cs) => some cs
  | _ => none

/-- a launch: children have larger ids below `n`, and no other launch mentions them -/
def launchOK (bodies : List (List Act)) (i pc : Nat) : Bool :=
  match launchAt bodies i pc with
  | some cs =>
    cs.all (fun c => decide (i < c) && decide (c < bodies.length)) &&
    (List.range bodies.length).all fun i' => (List.range (bodies.getD i' []).length).all fun pc' =>
      match launchAt bodies i' pc' with
      | some cs' => cs.all fun c => !cs'.contains c || (i == i' && pc == pc')
      | none => true
  | none => true

/-- a wait: every awaited child was launched by an earlier action of the same body -/
def waitOK (bodies : List (List Act)) (i pc : Nat) : Bool :=
  match waitAt bodies i pc with
  | some cs => cs.all fun c => (List.range pc).any fun pc' =>
      match launchAt bodies i pc' with
      | some cs' => cs'.contains c
      | none => false
  | none => true

/-- executable well-formedness check of a numbered call tree (`wfb_sound`: it implies `WF`) -/
def wfb (bodies : List (List Act)) : Bool :=
  decide (0 < bodies.length) &&
  (List.range bodies.length).all fun i => (List.range (bodies.getD i []).length).all fun pc =>
    launchOK bodies i pc && waitOK bodies i pc

/-- the step a live node can take, if any (`none` = it can only keep polling) -/
def threadStep (P : Prog) (s : Sys) (i : Nat) : Option Sys :=
  match s.node i with
  | .run pc =>
    match (P.body i)[pc]? with
    | none => some (doFinish s i)
    | some (Act.launch cs) => some (doLaunch s i pc cs)
    | some (Act.wait cs) =>
      if allFinal s cs then some { s with node := upd s.node i (.run (pc + 1)) }
      else some (doDeclare s i pc (cs.filter fun c => s.node c != .final))
  | .declared pc =>
    some { s with node := upd s.node i (.spin pc),
                  waiting := if s.waiting.contains i then s.waiting else s.waiting ++ [i] }
  | .spin pc =>
    match (P.body i)[pc]? with
    | some (Act.wait cs) =>
      if allFinal s cs then some { s with node := upd s.node i (.run (pc + 1)) } else none
    | _ => none
  | _ => none

/-- one `runner_loop_iteration`: the blocking invocations in id order, up to the free slots -/
def pollStep (cfg : Cfg) (P : Prog) (s : Sys) : Option Sys :=
  let bs := ((List.range P.size).filter (blocking s)).take (avail cfg s)
  let s' := doPoll cfg s bs
  if s.threads.length < s'.threads.length then some s' else none

/-- poll, then every node in id order takes its step; returns the state and the number of steps -/
def round (cfg : Cfg) (P : Prog) (s : Sys) : Sys × Nat :=
  let (s1, n1) := match pollStep cfg P s with
    | some s' => (s', 1)
    | none => (s, 0)
  (List.range P.size).foldl (fun (acc : Sys × Nat) i =>
    match threadStep P acc.1 i with
    | some s' => (s', acc.2 + 1)
    | none => acc) (s1, n1)

def countFinal (P : Prog) (s : Sys) : Nat := ((List.range P.size).filter fun i => s.node i == .final).length

def simLoop (cfg : Cfg) (P : Prog) : Nat → Sys → Nat → String × Nat × Nat
  | 0, s, n => ("fuel", n, countFinal P s)
  | fuel + 1, s, n =>
    if s.node P.root = .final then ("done", n, countFinal P s)
    else
      let (s', k) := round cfg P s
      if k = 0 then ("stuck", n, countFinal P s) else simLoop cfg P fuel s' (n + k)

/-- ("done" | "stuck" | "fuel", steps taken, nodes that are final) -/
def simulate (cfg : Cfg) (P : Prog) (fuel : Nat) : String × Nat × Nat := simLoop cfg P fuel (init P) 0

end Pynenc.TR
