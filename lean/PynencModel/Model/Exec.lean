/-
  C19 — task programs and the two ways pynenc executes them (core Lean only).

  A *program* is a finite tree of task invocations.  The body of a node is a pure Python function (the same
  function in both modes) that, on its k-th execution (k = 0, 1, …):
    * `early e` : raises `e` before calling anything,
    * `ret c`   : makes its calls in order, then returns `c + Σ results`,
    * `late e`  : makes its calls in order, then raises `e`;
  an exception coming out of a call is not caught, it ends the execution of the body.
  A call is a single sub-task whose result is read at once (`t(args).result`, or the direct-task wrapper that
  returns the plain value), a group (`t.parallelize(…)` whose `results` are all consumed and summed, or the
  direct-task wrapper with `parallel_func`/`aggregate_func = sum`), or an invocation whose result is never read.

  What differs between the modes is *not* the body but what `t(args)`, `.result` and `group.results` do:
    * `syncMode`  follows `ConcurrentInvocation.result` / `ConcurrentInvocationGroup.results`
      (pynenc/invocation/conc_invocation.py): nothing runs before `.result` is read; `.result` runs the body
      and on a retriable exception increments `_num_retries` and recurses; the group is a generator over
      `invocation.result`, so it stops at the first member that raises.
    * `distMode`  follows `DistributedInvocation.run` / `.result` / `DistributedInvocationGroup.results`
      (pynenc/invocation/dist_invocation.py, base_orchestrator.set_invocation_retry/_result/_exception):
      every routed invocation is executed by a runner whether or not anybody reads its result; one execution
      ends in SUCCESS with a stored result, in RETRY (+1 on the orchestrator's counter, re-queued, executed
      again later) or in FAILED with a stored (serialized) exception; the caller gets the stored result or
      re-raises the stored exception; a group yields results in completion order.
    * `eagerMode` is the smallest repair of sync mode (run the body when the invocation is created).
-/
namespace Pynenc.Exec

/-- an exception as the program sees it: class name, the names of all classes it is an instance of
    (`type(e).__mro__`, the class itself included) and its positional arguments (opaque tokens) -/
structure Exc where
  kind : String
  mro : List String
  args : List String
deriving DecidableEq, Repr, Inhabited

inductive Outcome where
  | val (v : Int)
  | err (e : Exc)
deriving DecidableEq, Repr, Inhabited

/-- what a body does on one execution -/
inductive Act where
  | ret (c : Int)
  | early (e : Exc)
  | late (e : Exc)
deriving DecidableEq, Repr, Inhabited

/-- a task invocation: identity of the node, the task options `max_retries` / `retry_for`, flavour
    (`direct` = called through the `direct_task` wrapper; the evaluators ignore it — that is the claim), script -/
structure Cfg where
  id : Nat
  maxRetries : Nat
  retryFor : List String
  direct : Bool
  script : List Act
  dflt : Act
deriving DecidableEq, Repr, Inhabited

mutual
  inductive Prog where
    | node (c : Cfg) (calls : Calls)
  inductive Calls where
    | nil
    | single (p : Prog) (rest : Calls)
    | group (direct : Bool) (ps : Progs) (rest : Calls)
    | forget (p : Prog) (rest : Calls)
  inductive Progs where
    | nil
    | cons (p : Prog) (ps : Progs)
end

/-- one entry per body execution: (node id, `invocation.num_retries` as read inside the body) -/
abbrev Log := List (Nat × Nat)

/-- what the caller of an invocation observes, plus the executions it caused -/
structure Res where
  out : Outcome
  log : Log
  /-- `invocation.num_retries` at the end -/
  retries : Nat
  /-- executions of this invocation's own body -/
  runs : Nat
deriving DecidableEq, Repr, Inhabited

/-- effect of a sequence of calls inside a body: sum of the values or the first exception -/
structure CallsRes where
  out : Outcome
  log : Log
deriving DecidableEq, Repr, Inhabited

/-- `except self.task.retriable_exceptions` — `Task.retriable_exceptions` is `retry_for` plus `RetryError`;
    `except` matches by `isinstance`, i.e. by membership in the exception's mro -/
def retriable (rf : List String) (e : Exc) : Bool :=
  e.mro.any fun c => c == "RetryError" || rf.contains c

def Cfg.actAt (c : Cfg) (k : Nat) : Act := c.script.getD k c.dflt

/-- outcome of the k-th execution of the body, given what its calls produce -/
def bodyOut (c : Cfg) (cr : CallsRes) (k : Nat) : Outcome :=
  match c.actAt k with
  | .early e => .err e
  | .ret v =>
    match cr.out with
    | .val s => .val (v + s)
    | .err e => .err e
  | .late e =>
    match cr.out with
    | .val _ => .err e
    | .err e' => .err e'

/-- executions caused by the k-th execution of the body (`seen` = `num_retries` it reads) -/
def bodyLog (c : Cfg) (cr : CallsRes) (k seen : Nat) : Log :=
  match c.actAt k with
  | .early _ => [(c.id, seen)]
  | _ => (c.id, seen) :: cr.log

def ofRes (r : Res) : CallsRes := ⟨r.out, r.log⟩

/-- two statements in sequence: the second is not reached when the first raises -/
def seqRes (a b : CallsRes) : CallsRes :=
  match a.out with
  | .err _ => a
  | .val v =>
    match b.out with
    | .val w => ⟨.val (v + w), a.log ++ b.log⟩
    | .err e => ⟨.err e, a.log ++ b.log⟩

/-! ### sync mode: `ConcurrentInvocation.result` -/

/-- `rem = max_retries - _num_retries`, `n = _num_retries`.  `rem = 0` is the branch
    `if self._num_retries >= self.task.conf.max_retries: … raise exc`. -/
def syncLoop (c : Cfg) (cr : CallsRes) : Nat → Nat → Res
  | 0, n => ⟨bodyOut c cr n, bodyLog c cr n n, n, 1⟩
  | rem + 1, n =>
    match bodyOut c cr n with
    | .val v => ⟨.val v, bodyLog c cr n n, n, 1⟩
    | .err e =>
      if retriable c.retryFor e then
        -- self._num_retries += 1; return self.result
        let r := syncLoop c cr rem (n + 1)
        ⟨r.out, bodyLog c cr n n ++ r.log, r.retries, r.runs + 1⟩
      else ⟨.err e, bodyLog c cr n n, n, 1⟩

def syncInvoke (c : Cfg) (cr : CallsRes) : Res := syncLoop c cr c.maxRetries 0

/-- `ConcurrentInvocationGroup.results`: `for invocation in self.invocations: yield invocation.result` — the
    members after the first one that raises are never executed -/
def lazyGroup : List Res → CallsRes
  | [] => ⟨.val 0, []⟩
  | r :: rs => seqRes (ofRes r) (lazyGroup rs)

/-! ### distributed mode: `DistributedInvocation.run` + orchestrator + state backend -/

inductive St where
  | registered | retry | success | failed
deriving DecidableEq, Repr, Inhabited

/-- what the orchestrator and the state backend hold about one invocation -/
structure Inv where
  status : St := .registered
  /-- orchestrator retry counter (`get_invocation_retries`) -/
  retries : Nat := 0
  /-- how many times a runner has executed it -/
  runs : Nat := 0
  result : Option Int := none
  exc : Option Exc := none
deriving DecidableEq, Repr, Inhabited

/-- one `DistributedInvocation.run`: RUNNING, body, then `set_invocation_result` (SUCCESS + stored result),
    `set_invocation_retry` (RETRY, counter + 1, re-queued) or `set_invocation_exception` (FAILED + stored
    exception, which goes through the serializer: `rt`).  `last` = `self.num_retries >= max_retries`. -/
def runOnce (rt : Exc → Exc) (c : Cfg) (cr : CallsRes) (last : Bool) (inv : Inv) : Inv × Log :=
  let lg := bodyLog c cr inv.runs inv.retries
  match bodyOut c cr inv.runs with
  | .val v => ({ inv with status := .success, result := some v, runs := inv.runs + 1 }, lg)
  | .err e =>
    if retriable c.retryFor e && !last then
      ({ inv with status := .retry, retries := inv.retries + 1, runs := inv.runs + 1 }, lg)
    else ({ inv with status := .failed, exc := some (rt e), runs := inv.runs + 1 }, lg)

/-- the runner executing the invocation every time it comes out of the queue; `rem = max_retries - retries` -/
def distLoop (rt : Exc → Exc) (c : Cfg) (cr : CallsRes) : Nat → Inv → Inv × Log
  | 0, inv => runOnce rt c cr true inv
  | rem + 1, inv =>
    let r := runOnce rt c cr false inv
    match r.1.status with
    | .retry =>
      let r2 := distLoop rt c cr rem r.1
      (r2.1, r.2 ++ r2.2)
    | _ => r

/-- `get_final_result`: FAILED → raise the stored exception, else the stored result -/
def finalResult (inv : Inv) : Outcome :=
  match inv.status, inv.result, inv.exc with
  | .failed, _, some e => .err e
  | .success, some v, _ => .val v
  | _, _, _ => .err ⟨"InvocationError", ["InvocationError", "PynencError", "Exception"], []⟩

def distInvoke (rt : Exc → Exc) (c : Cfg) (cr : CallsRes) : Res :=
  let r := distLoop rt c cr c.maxRetries {}
  ⟨finalResult r.1, r.2, r.1.retries, r.1.runs⟩

/-- what the consumer of a group sees: the sum of the values, or the first exception in delivery order -/
def consume : List Outcome → Outcome
  | [] => .val 0
  | .err e :: _ => .err e
  | .val v :: rest =>
    match consume rest with
    | .val w => .val (v + w)
    | .err e => .err e

def allLogs : List Res → Log
  | [] => []
  | r :: rs => r.log ++ allLogs rs

/-- `DistributedInvocationGroup.results`: every member has been routed and is executed; results are delivered in
    completion order (`perm` picks the order) -/
def allGroup (perm : List Outcome → List Outcome) (rs : List Res) : CallsRes :=
  ⟨consume (perm (rs.map (·.out))), allLogs rs⟩

/-! ### the evaluator, parametric in what invoking / grouping / not reading a result do -/

structure Mode where
  /-- run one invocation to its final outcome, given what the calls of its body produce -/
  invoke : Cfg → CallsRes → Res
  /-- consume all results of a group -/
  group : List Res → CallsRes
  /-- an invocation that is created and whose result is never read -/
  forget : Res → CallsRes

mutual
  def eval (M : Mode) : Prog → Res
    | .node c calls => M.invoke c (evalCalls M calls)
  def evalCalls (M : Mode) : Calls → CallsRes
    | .nil => ⟨.val 0, []⟩
    | .single p rest => seqRes (ofRes (eval M p)) (evalCalls M rest)
    | .group _ ps rest => seqRes (M.group (evalAll M ps)) (evalCalls M rest)
    | .forget p rest => seqRes (M.forget (eval M p)) (evalCalls M rest)
  def evalAll (M : Mode) : Progs → List Res
    | .nil => []
    | .cons p ps => eval M p :: evalAll M ps
end

/-- development mode (`dev_mode_force_sync_tasks`): an invocation that is not read is not executed -/
def syncMode : Mode := ⟨syncInvoke, lazyGroup, fun _ => ⟨.val 0, []⟩⟩

/-- distributed mode; `rt` = exception through the serializer, `perm` = completion order of group members -/
def distMode (rt : Exc → Exc) (perm : List Outcome → List Outcome) : Mode :=
  ⟨distInvoke rt, allGroup perm, fun r => ⟨.val 0, r.log⟩⟩

/-- the suggested repair of sync mode: the body runs when the invocation is created (members in list order) -/
def eagerMode : Mode := ⟨syncInvoke, allGroup id, fun r => ⟨.val 0, r.log⟩⟩

def evalSync (p : Prog) : Res := eval syncMode p
def evalDist (rt : Exc → Exc) (perm : List Outcome → List Outcome) (p : Prog) : Res := eval (distMode rt perm) p
def evalEager (p : Prog) : Res := eval eagerMode p

/-! ### the programs on which the current sync mode executes everything the distributed mode executes -/

def Outcome.isVal : Outcome → Bool
  | .val _ => true
  | .err _ => false

def Progs.isNil : Progs → Bool
  | .nil => true
  | .cons _ _ => false

mutual
  /-- no unread invocation, and in every group every member but the last returns a value -/
  def safe : Prog → Bool
    | .node _ calls => safeCalls calls
  def safeCalls : Calls → Bool
    | .nil => true
    | .single p rest => safe p && safeCalls rest
    | .group _ ps rest => safeGroup ps && safeCalls rest
    | .forget _ _ => false
  def safeGroup : Progs → Bool
    | .nil => true
    | .cons p ps => safe p && (ps.isNil || (evalSync p).out.isVal) && safeGroup ps
end

/-- number of failed members of a group -/
def errCount : List Res → Nat
  | [] => 0
  | r :: rs => (if r.out.isVal then 0 else 1) + errCount rs

mutual
  /-- in every group at most one member fails (so the completion order cannot change what the consumer sees) -/
  def unamb : Prog → Bool
    | .node _ calls => unambCalls calls
  def unambCalls : Calls → Bool
    | .nil => true
    | .single p rest => unamb p && unambCalls rest
    | .group _ ps rest => unambAll ps && decide (errCount (evalAll eagerMode ps) ≤ 1) && unambCalls rest
    | .forget p rest => unamb p && unambCalls rest
  def unambAll : Progs → Bool
    | .nil => true
    | .cons p ps => unamb p && unambAll ps
end

/-! ### plain flavour of a program -/

/-- the same invocation called as a plain task -/
def Cfg.plain (c : Cfg) : Cfg := { c with direct := false }

mutual
  /-- the program with every `direct_task` wrapper replaced by the plain task -/
  def plainProg : Prog → Prog
    | .node c calls => .node (Cfg.plain c) (plainCalls calls)
  def plainCalls : Calls → Calls
    | .nil => .nil
    | .single p rest => .single (plainProg p) (plainCalls rest)
    | .group _ ps rest => .group false (plainProgs ps) (plainCalls rest)
    | .forget p rest => .forget (plainProg p) (plainCalls rest)
  def plainProgs : Progs → Progs
    | .nil => .nil
    | .cons p ps => .cons (plainProg p) (plainProgs ps)
end

/-! ### the order of counter and status in `set_invocation_retry` (before commit a0b5643)

  Until a0b5643 `set_invocation_retry` published the status RETRY *before* it incremented the retry counter.  When another
  invocation is waiting for this one, the runner's "blocking invocations first" path
  (`get_blocking_invocations_to_run`) may claim and execute it as soon as RETRY is visible — it does not wait for
  the message `set_invocation_retry` puts on the broker afterwards — so the next execution can read a retry counter
  that misses the increments still owed by earlier executions.  `lands k` = how many of the outstanding increments
  have landed when execution `k` compares the counter with `max_retries`. -/

structure RacyInv where
  /-- increments that have reached the orchestrator -/
  landed : Nat := 0
  /-- increments owed by executions that already published RETRY -/
  pending : Nat := 0
  runs : Nat := 0
deriving DecidableEq, Repr

/-- executions of a body that always raises a retriable exception, watched for at most `left` more executions
    (the result is `runs` of the input when the watch ends while the invocation is still being retried) -/
def racyRuns (lands : Nat → Nat) (maxRetries : Nat) : Nat → RacyInv → Nat
  | 0, inv => inv.runs
  | left + 1, inv =>
    let l := min (lands inv.runs) inv.pending
    if inv.landed + l ≥ maxRetries then inv.runs + 1
    else racyRuns lands maxRetries left ⟨inv.landed + l, inv.pending - l + 1, inv.runs + 1⟩

end Pynenc.Exec
