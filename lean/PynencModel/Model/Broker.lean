/-
  Model of pynenc's message brokers (pynenc/broker/base_broker.py contract,
  mem_broker.py `MemBroker`, sqlite_broker.py `SQLiteBroker`).  Core Lean only.

  * `Spec`  — the abstract FIFO queue the contract describes: a `List α` with append / head-tail /
              length / nil.
  * `Mem`   — `MemBroker`: a deque; `route_invocation` = `append`, `route_invocations` = a loop of
              `route_invocation`, `retrieve_invocation` = `popleft` guarded by truthiness,
              `count_invocations` = `len`, `purge` = `clear`.
  * `Sql`   — `SQLiteBroker`: the table `<prefix>__broker_message_queue(id INTEGER PRIMARY KEY
              AUTOINCREMENT, invocation_id, created_at REAL DEFAULT julianday('now'))`.
              `send_message` inserts one row with the next AUTOINCREMENT id and the clock value of that
              statement; `retrieve_invocation` selects `ORDER BY created_at ASC LIMIT 1` (served by the
              index on `created_at`, whose entries are ordered by `(created_at, rowid)`) and deletes the
              row with that id, inside one `BEGIN IMMEDIATE` transaction; `count_invocations` is
              `SELECT COUNT(*)`; `purge` is `DELETE FROM` (the AUTOINCREMENT high-water mark in
              `sqlite_sequence` survives).
  * `SState` — the same table at SQL-statement granularity, any number of connections, SQLite's single
              write lock (WAL: uncommitted changes are invisible to others and take effect at COMMIT):
              `retrieve_invocation` of connection `a` is BEGIN IMMEDIATE / SELECT / DELETE / COMMIT (or
              BEGIN IMMEDIATE / SELECT / COMMIT when no row was found), `send_message` is one INSERT+COMMIT
              write.  `locked = false` is the code with the `BEGIN IMMEDIATE` statement removed: the
              SELECT then runs outside the write lock, which is only taken by the DELETE.

  Messages are elements of an arbitrary type `α` (the brokers never inspect an id); the driver
  instantiates `α := String`.
-/
namespace Pynenc.Broker

/-- the public operations of `BaseBroker` -/
inductive Op (α : Type) where
  | route (i : α)
  | routeMany (is : List α)
  | retrieve
  | count
  | purge
deriving Repr, DecidableEq

/-- what an operation returns -/
inductive Out (α : Type) where
  | unit
  | got (o : Option α)
  | n (k : Nat)
deriving Repr, DecidableEq

def Op.map {α β : Type} (f : α → β) : Op α → Op β
  | .route i => .route (f i)
  | .routeMany is => .routeMany (is.map f)
  | .retrieve => .retrieve
  | .count => .count
  | .purge => .purge

def Out.map {α β : Type} (f : α → β) : Out α → Out β
  | .unit => .unit
  | .got o => .got (o.map f)
  | .n k => .n k

/-! ### abstract FIFO queue -/
namespace Spec
variable {α : Type}

def step (q : List α) : Op α → List α × Out α
  | .route i => (q ++ [i], .unit)
  | .routeMany is => (q ++ is, .unit)
  | .retrieve =>
    match q with
    | [] => ([], .got none)
    | x :: r => (r, .got (some x))
  | .count => (q, .n q.length)
  | .purge => ([], .unit)

/-- queue after a sequence of operations -/
def final (q : List α) : List (Op α) → List α
  | [] => q
  | op :: ops => final (step q op).1 ops

/-- results of a sequence of operations, one per operation -/
def outs (q : List α) : List (Op α) → List (Out α)
  | [] => []
  | op :: ops => (step q op).2 :: outs (step q op).1 ops

end Spec

/-! ### MemBroker -/
structure Mem (α : Type) where
  q : List α := []
deriving Repr

namespace Mem
variable {α : Type}

/-- `self._queue.append(invocation_id)` -/
def route (b : Mem α) (i : α) : Mem α := { q := b.q ++ [i] }

/-- `for invocation_id in invocation_ids: self.route_invocation(invocation_id)` -/
def routeMany (b : Mem α) : List α → Mem α
  | [] => b
  | i :: is => routeMany (b.route i) is

/-- `if self._queue: return self._queue.popleft()`, else `None` -/
def retrieve (b : Mem α) : Mem α × Option α :=
  match b.q with
  | [] => (b, none)
  | x :: r => ({ q := r }, some x)

def count (b : Mem α) : Nat := b.q.length

def purge (_ : Mem α) : Mem α := { q := [] }

def step (b : Mem α) : Op α → Mem α × Out α
  | .route i => (b.route i, .unit)
  | .routeMany is => (b.routeMany is, .unit)
  | .retrieve => let r := b.retrieve; (r.1, .got r.2)
  | .count => (b, .n b.count)
  | .purge => (b.purge, .unit)

def final (b : Mem α) : List (Op α) → Mem α
  | [] => b
  | op :: ops => final (step b op).1 ops

def outs (b : Mem α) : List (Op α) → List (Out α)
  | [] => []
  | op :: ops => (step b op).2 :: outs (step b op).1 ops

end Mem

/-! ### SQLiteBroker, one public operation = one atomic step -/

/-- one row of the queue table; `created` is `julianday('now')` of the inserting statement, in the
    clock's own unit (the only thing used is its order) -/
structure Row (α : Type) where
  id : Nat
  inv : α
  created : Nat
deriving Repr, DecidableEq

/-- strict order of the index on `created_at`: `(created_at, rowid)` lexicographic -/
def Row.before {α : Type} (a b : Row α) : Bool :=
  a.created < b.created || (a.created == b.created && a.id < b.id)

/-- first row in index order (`ORDER BY created_at ASC LIMIT 1`), whatever the physical order -/
def minRow {α : Type} : List (Row α) → Option (Row α)
  | [] => none
  | r :: rs =>
    match minRow rs with
    | none => some r
    | some m => if m.before r then some m else some r

/-- `DELETE FROM queue WHERE id = ?` -/
def deleteId {α : Type} (rows : List (Row α)) (id : Nat) : List (Row α) :=
  rows.filter (fun r => r.id != id)

/-- the table (rows in rowid order) and the AUTOINCREMENT high-water mark of `sqlite_sequence` -/
structure Sql (α : Type) where
  rows : List (Row α) := []
  seq : Nat := 0
deriving Repr

/-- operations of the SQLite broker carry the clock reading of every INSERT statement they execute -/
inductive TOp (α : Type) where
  | route (t : Nat) (i : α)
  | routeMany (tis : List (Nat × α))
  | retrieve
  | count
  | purge
deriving Repr, DecidableEq

def TOp.erase {α : Type} : TOp α → Op α
  | .route _ i => .route i
  | .routeMany tis => .routeMany (tis.map (·.2))
  | .retrieve => .retrieve
  | .count => .count
  | .purge => .purge

/-- clock readings of an operation, in statement order -/
def TOp.stamps {α : Type} : TOp α → List Nat
  | .route t _ => [t]
  | .routeMany tis => tis.map (·.1)
  | _ => []

namespace Sql
variable {α : Type}

/-- `INSERT INTO queue (invocation_id, created_at) VALUES (?, julianday('now'))` + commit -/
def insert (s : Sql α) (t : Nat) (i : α) : Sql α :=
  { rows := s.rows ++ [{ id := s.seq + 1, inv := i, created := t }], seq := s.seq + 1 }

def insertMany (s : Sql α) : List (Nat × α) → Sql α
  | [] => s
  | (t, i) :: rest => insertMany (s.insert t i) rest

/-- BEGIN IMMEDIATE; SELECT … ORDER BY created_at LIMIT 1; DELETE … WHERE id = ?; COMMIT -/
def retrieve (s : Sql α) : Sql α × Option α :=
  match minRow s.rows with
  | none => (s, none)
  | some m => ({ s with rows := deleteId s.rows m.id }, some m.inv)

def count (s : Sql α) : Nat := s.rows.length

/-- `DELETE FROM queue` (then CREATE TABLE IF NOT EXISTS: no effect) -/
def purge (s : Sql α) : Sql α := { s with rows := [] }

def step (s : Sql α) : TOp α → Sql α × Out α
  | .route t i => (s.insert t i, .unit)
  | .routeMany tis => (s.insertMany tis, .unit)
  | .retrieve => let r := s.retrieve; (r.1, .got r.2)
  | .count => (s, .n s.count)
  | .purge => (s.purge, .unit)

def final (s : Sql α) : List (TOp α) → Sql α
  | [] => s
  | op :: ops => final (step s op).1 ops

def outs (s : Sql α) : List (TOp α) → List (Out α)
  | [] => []
  | op :: ops => (step s op).2 :: outs (step s op).1 ops

/-- the queue the table denotes when its rows are in index order (invariant `WF` of Props/C08) -/
def queue (s : Sql α) : List α := s.rows.map (·.inv)

end Sql

/-! ### SQLiteBroker at SQL-statement granularity (several connections, one write lock) -/

/-- where a connection stands inside `retrieve_invocation` -/
inductive Pc (α : Type) where
  | idle
  | begun                          -- after BEGIN IMMEDIATE
  | selected (r : Option (Row α))  -- after SELECT … LIMIT 1 (row fetched, or none)
  | deleted (r : Row α)            -- after DELETE … WHERE id = r.id (uncommitted)
deriving DecidableEq

/-- one SQL statement executed by connection `a` -/
inductive Stmt (α : Type) where
  | begin_ (a : Nat)
  | select (a : Nat)
  | delete (a : Nat)
  | commit (a : Nat)
  | insert (a : Nat) (t : Nat) (i : α)   -- INSERT … julianday('now') = t, committed (`send_message`)
deriving DecidableEq

def Stmt.stamps {α : Type} : Stmt α → List Nat
  | .insert _ t _ => [t]
  | _ => []

structure SState (α : Type) where
  tbl : Sql α := {}                      -- committed content of the table
  lock : Option Nat := none              -- holder of the write lock
  pc : Nat → Pc α := fun _ => .idle
  delivered : List (Nat × α) := []       -- (connection, message) returned by completed retrievals, in commit order
  inserted : List α := []                -- messages inserted, in commit order

namespace SState
variable {α : Type}

def setPc (s : SState α) (a : Nat) (p : Pc α) : SState α :=
  { s with pc := fun b => if b = a then p else s.pc b }

/-- One statement; `none` = not enabled in this state (it waits for the write lock, or it is not the
    next statement of that connection's program).  `locked = true` is the code as written. -/
def exec (locked : Bool) (s : SState α) : Stmt α → Option (SState α)
  | .begin_ a =>
    match s.pc a with
    | .idle =>
      if locked then
        match s.lock with
        | none => some { s.setPc a .begun with lock := some a }
        | some _ => none
      else some (s.setPc a .begun)
    | _ => none
  | .select a =>
    match s.pc a with
    | .begun => some (s.setPc a (.selected (minRow s.tbl.rows)))
    | _ => none
  | .delete a =>
    match s.pc a with
    | .selected (some r) =>
      if locked then some (s.setPc a (.deleted r))
      else
        match s.lock with
        | none => some { s.setPc a (.deleted r) with lock := some a }
        | some _ => none
    | _ => none
  | .commit a =>
    match s.pc a with
    | .selected none =>
      some { s.setPc a .idle with lock := if s.lock = some a then none else s.lock }
    | .deleted r =>
      some { s.setPc a .idle with
        lock := if s.lock = some a then none else s.lock
        tbl := { s.tbl with rows := deleteId s.tbl.rows r.id }
        delivered := s.delivered ++ [(a, r.inv)] }
    | _ => none
  | .insert a t i =>
    match s.pc a, s.lock with
    | .idle, none => some { s with tbl := s.tbl.insert t i, inserted := s.inserted ++ [i] }
    | _, _ => none

/-- run a statement schedule; a statement that is not enabled is skipped (its connection waits, the
    scheduler moves on; the statement can be re-issued later in the schedule) -/
def run (locked : Bool) (s : SState α) : List (Stmt α) → SState α
  | [] => s
  | st :: rest =>
    match exec locked s st with
    | some s' => run locked s' rest
    | none => run locked s rest

end SState

end Pynenc.Broker
