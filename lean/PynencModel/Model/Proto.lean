/-
  Token helpers of the line protocol spoken by the `pynmodel` driver (core Lean only).
  A token is `-` (None), `e` (empty string) or `x<hex of utf-8 bytes>`.
-/
namespace Pynenc.Proto

def hexVal (c : Char) : Option Nat :=
  if '0' ≤ c ∧ c ≤ '9' then some (c.toNat - '0'.toNat)
  else if 'a' ≤ c ∧ c ≤ 'f' then some (c.toNat - 'a'.toNat + 10)
  else none

def hexBytes : List Char → Option (List UInt8)
  | [] => some []
  | a :: b :: rest => do
    let x ← hexVal a
    let y ← hexVal b
    let r ← hexBytes rest
    pure (UInt8.ofNat (x * 16 + y) :: r)
  | _ => none

/-- decode a token to `Option String`; outer `none` = malformed -/
def untok (t : String) : Option (Option String) :=
  if t == "-" then some none
  else if t == "e" then some (some "")
  else match t.toList with
    | 'x' :: rest =>
      match hexBytes rest with
      | some bs => (String.fromUTF8? (ByteArray.mk bs.toArray)).map some
      | none => none
    | _ => none

def hexDigit (n : Nat) : Char := if n < 10 then Char.ofNat (48 + n) else Char.ofNat (87 + n)

def tok : Option String → String
  | none => "-"
  | some s =>
    if s == "" then "e"
    else "x" ++ String.ofList (s.toUTF8.toList.flatMap fun b => [hexDigit (b.toNat / 16), hexDigit (b.toNat % 16)])

/-- `num/den` or an integer -/
def parseRat (s : String) : Option Rat :=
  match s.splitOn "/" with
  | [a, b] => match a.toInt?, b.toNat? with
    | some n, some d => if d = 0 then none else some ((n : Rat) / (d : Rat))
    | _, _ => none
  | [a] => a.toInt?.map fun n => (n : Rat)
  | _ => none

def showRat (r : Rat) : String := s!"{r.num}/{r.den}"

end Pynenc.Proto
