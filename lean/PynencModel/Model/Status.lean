/-
  L1 model of pynenc/invocation/status.py: the declarative status table and
  `status_record_transition` (validate_transition, validate_ownership, compute_new_owner).
  Generic in the table so that the regenerated `Gen.StatusTable` is what the theorems are about.
  Core Lean only (no Mathlib): this file is linked into the `pynmodel` driver.
-/
namespace Pynenc

inductive Status where
  | registered | concurrencyControlled | concurrencyControlledFinal | rerouted
  | pending | pendingRecovery | running | runningRecovery | paused | resumed
  | killed | success | failed | retry
  deriving DecidableEq, Repr, Inhabited

namespace Status

def all : List Status :=
  [registered, concurrencyControlled, concurrencyControlledFinal, rerouted, pending,
   pendingRecovery, running, runningRecovery, paused, resumed, killed, success, failed, retry]

/-- the enum *value* strings of `InvocationStatus` -/
def name : Status → String
  | registered => "registered" | concurrencyControlled => "concurrency_controlled"
  | concurrencyControlledFinal => "concurrency_controlled_final" | rerouted => "rerouted"
  | pending => "pending" | pendingRecovery => "pending_recovery" | running => "running"
  | runningRecovery => "running_recovery" | paused => "paused" | resumed => "resumed"
  | killed => "killed" | success => "success" | failed => "failed" | retry => "retry"

def ofName? (s : String) : Option Status := all.find? (fun x => x.name == s)

end Status

/-- one row of `_CONFIG.definitions` -/
structure StatusDef where
  allowed   : List Status
  isFinal   : Bool := false
  available : Bool := false
  requires  : Bool := false
  acquires  : Bool := false
  releases  : Bool := false
  overrides : Bool := false
  deriving Repr, DecidableEq

/-- `_CONFIG.get_definition`; `none` is the row of a not-yet-existing invocation -/
abbrev Table := Option Status → StatusDef

/-- status + owner part of `InvocationStatusRecord` (the timestamp lives in the orchestrator model) -/
structure SRec where
  status : Status
  owner  : Option String
  deriving DecidableEq, Repr

inductive StatusErr where
  | transition   -- InvocationStatusTransitionError
  | ownership    -- InvocationStatusOwnershipError
  deriving DecidableEq, Repr

/-- Python truthiness of `runner_id` (`not runner_id`): `None` and `""` are falsy -/
def truthy : Option String → Bool
  | some s => s != ""
  | none => false

/-- `validate_transition` -/
def validTransition (T : Table) (cur : Option SRec) (req : Status) : Bool :=
  (T (cur.map (·.status))).allowed.contains req

/-- `validate_ownership`, returning `true` when no error is raised -/
def validOwnership (T : Table) (cur : Option SRec) (req : Status) (rid : Option String) : Bool :=
  match cur with
  | none => true
  | some c =>
    if (T (some req)).overrides then true
    else if (T (some c.status)).requires && rid != c.owner then false
    else if (T (some req)).acquires && !truthy rid then false
    else true

/-- `compute_new_owner` -/
def newOwner (T : Table) (cur : Option SRec) (req : Status) (rid : Option String) : Option String :=
  if (T (some req)).releases then none
  else if (T (some req)).acquires then rid
  else match cur with
    | some c => c.owner
    | none => none

/-- `status_record_transition` -/
def step (T : Table) (cur : Option SRec) (req : Status) (rid : Option String) : Except StatusErr SRec :=
  if !validTransition T cur req then .error .transition
  else if !validOwnership T cur req rid then .error .ownership
  else .ok { status := req, owner := newOwner T cur req rid }

end Pynenc
