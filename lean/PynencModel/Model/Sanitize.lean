/-
  Model of pynenc's SQLite storage naming scheme (pynenc/util/sqlite_utils.py) and of the two
  SQLite behaviours isolation between applications depends on.  Core Lean only.

  * `sanitize_table_prefix(app_id)`:
        sanitized = re.sub(r"[^a-zA-Z0-9_]", "_", app_id)
        if sanitized and (sanitized[0].isdigit() or f"{sanitized}_".lower().startswith("sqlite_")):
            sanitized = "_" + sanitized
        sanitized = sanitized or "_default"
        return f"{sanitized}_{sha256(app_id)[:8]}"
    SHA-256 is *not* modelled: the 8 hex characters are a parameter (`h`) of every function here and
    "no collision" is an explicit hypothesis of the theorems that need it.
    Python's `str.isdigit` is true of many non-ASCII characters ('٣', '²', …) but it is applied
    *after* the substitution, when only `[a-zA-Z0-9_]` can be left; the model is parametric in the
    digit test (`stemWith`) and `Props/C17.stemWith_eq_stem` proves that every test that agrees with
    `[0-9]` on ASCII gives the same function.
  * `TableNames(app_id, component).table_prefix = f"{prefix}__{component}"`, every table
    `f"{table_prefix}_{table}"`; the `(component, [table, …])` lists are regenerated from the real
    `Tables` classes into `Gen/TableNames.lean`.
  * SQLite resolves table names ASCII-case-insensitively (`fold`, `ieq`).
  * SQLite `LIKE` (default: `%` any sequence, `_` exactly one character, ASCII case-insensitive, no
    ESCAPE) — what the legacy `delete_tables_with_prefix` used.
  * `delete_tables` (exact names) and `delete_tables_with_prefix` (LIKE) on a database seen as a list
    of (table name, rows).
  Strings are `List Char` (a Lean `Char` is a Unicode scalar value, exactly what `str.encode()` accepts).
-/
namespace Pynenc.San

/-! ### characters -/

-- code points: 'a' = 97, 'z' = 122, 'A' = 65, 'Z' = 90, '0' = 48, '9' = 57, 'f' = 102, '_' = 95
def isLower (c : Char) : Bool := 97 ≤ c.toNat && c.toNat ≤ 122
def isUpper (c : Char) : Bool := 65 ≤ c.toNat && c.toNat ≤ 90
def isAsciiDigit (c : Char) : Bool := 48 ≤ c.toNat && c.toNat ≤ 57
def isAlpha (c : Char) : Bool := isLower c || isUpper c

/-- the character class `[a-zA-Z0-9_]` of the regular expression -/
def keep (c : Char) : Bool := isAlpha c || isAsciiDigit c || c == '_'

/-- `re.sub(r"[^a-zA-Z0-9_]", "_", ·)` on one character -/
def subst (c : Char) : Char := if keep c then c else '_'

/-- lower-case hexadecimal digit (what `hexdigest()` produces) -/
def isHexLower (c : Char) : Bool := isAsciiDigit c || (97 ≤ c.toNat && c.toNat ≤ 102)

/-- the 8-character hash suffix -/
def IsHex8 (h : List Char) : Prop := h.length = 8 ∧ ∀ c ∈ h, isHexLower c = true

instance (h : List Char) : Decidable (IsHex8 h) := by unfold IsHex8; infer_instance

def isHex8 (h : List Char) : Bool := h.length == 8 && h.all isHexLower

/-! ### SQLite identifier comparison -/

/-- ASCII lower-casing (`sqlite3UpperToLower`) -/
def fold (c : Char) : Char := if isUpper c then Char.ofNat (c.toNat + 32) else c

def foldS (s : List Char) : List Char := s.map fold

/-- SQLite's table-name equality (`sqlite3StrICmp`) -/
def ieq (a b : List Char) : Bool := foldS a == foldS b

/-- names beginning with `sqlite_` (any case) are reserved: `CREATE TABLE` refuses them -/
def isReserved (name : List Char) : Bool := foldS (name.take 7) == "sqlite_".toList

/-! ### sanitize_table_prefix -/

/-- `"_default"` -/
def defaultStem : List Char := ['_', 'd', 'e', 'f', 'a', 'u', 'l', 't']

/-- the sanitised stem, parametric in Python's `str.isdigit` on the first character and in whether the
    `sqlite_` guard of commit c2764ff is present:
        if sanitized and (sanitized[0].isdigit() or f"{sanitized}_".lower().startswith("sqlite_")):
            sanitized = "_" + sanitized
    (`sanitized` is ASCII here, so `.lower()` is the ASCII folding of `isReserved`) -/
def stemGen (guard : Bool) (isdigit : Char → Bool) (id : List Char) : List Char :=
  let s := id.map subst
  let s := match s with
    | [] => s
    | c :: _ => if isdigit c || (guard && isReserved (s ++ ['_'])) then '_' :: s else s
  if s.isEmpty then defaultStem else s

/-- the current tree's stem, parametric in the digit test -/
def stemWith (isdigit : Char → Bool) (id : List Char) : List Char := stemGen true isdigit id

/-- the sanitised stem (with the ASCII digit test, see `stemWith_eq_stem`) -/
def stem (id : List Char) : List Char := stemWith isAsciiDigit id

/-- the stem as it was before commit c2764ff (no `sqlite_` guard) — kept only to state what was wrong -/
def stemOld (id : List Char) : List Char := stemGen false isAsciiDigit id

/-- a table name under the pre-c2764ff scheme -/
def tableNameOld (id h comp tbl : List Char) : List Char :=
  stemOld id ++ '_' :: h ++ '_' :: '_' :: comp ++ '_' :: tbl

/-- `sanitize_table_prefix(id)` with `h = sha256(id).hexdigest()[:8]` -/
def sprefix (id h : List Char) : List Char := stem id ++ '_' :: h

/-- `TableNames(id, comp).table_prefix` -/
def tablePrefix (id h comp : List Char) : List Char := sprefix id h ++ '_' :: '_' :: comp

/-- `f"{table_prefix}_{tbl}"` -/
def tableName (id h comp tbl : List Char) : List Char := tablePrefix id h comp ++ '_' :: tbl

/-- the name of an index: `f"idx_{table}_{suffix}"` -/
def indexName (table suffix : List Char) : List Char := "idx_".toList ++ table ++ '_' :: suffix

/-- `[A-Za-z_][A-Za-z0-9_]*` -/
def isIdent : List Char → Bool
  | [] => false
  | c :: cs => (isAlpha c || c == '_') && cs.all keep

/-- the component table lists (`Gen.components`) as a flat list of (component, table) pairs -/
def pairsOf (comps : List (String × List String)) : List (List Char × List Char) :=
  comps.flatMap fun (c, ts) => ts.map fun t => (c.toList, t.toList)

/-- all table names of one application, component by component -/
def appTables (comps : List (String × List String)) (id h : List Char) : List (List Char) :=
  (pairsOf comps).map fun (c, t) => tableName id h c t

/-- the table names of one component of one application (`Tables.all_table_names()`) -/
def compTables (comps : List (String × List String)) (id h : List Char) (comp : String) : List (List Char) :=
  ((pairsOf comps).filter fun (c, _) => c == comp.toList).map fun (c, t) => tableName id h c t

/-! ### SQLite LIKE -/

/-- does `f` hold of some suffix of the string (the expansion of `%`) -/
def anySuffix (f : List Char → Bool) : List Char → Bool
  | [] => f []
  | c :: s => f (c :: s) || anySuffix f s

/-- `str LIKE pat` with SQLite's defaults -/
def like : (pat : List Char) → (str : List Char) → Bool
  | [], s => s.isEmpty
  | p :: ps, s =>
    if p = '%' then anySuffix (like ps) s
    else match s with
      | [] => false
      | c :: cs => (p = '_' || fold p = fold c) && like ps cs

/-! ### purge -/

/-- a database file as far as purge is concerned: table name ↦ rows (row contents are opaque) -/
abbrev DB (ρ : Type) := List (List Char × List ρ)

/-- `DELETE FROM name`: SQLite resolves the name case-insensitively -/
def deleteFrom {ρ : Type} (db : DB ρ) (name : List Char) : DB ρ :=
  db.map fun (n, rows) => if ieq n name then (n, []) else (n, rows)

/-- `delete_tables(path, names)`: `for t in names: if t in existing: DELETE FROM t` -/
def purgeExact {ρ : Type} (db : DB ρ) (names : List (List Char)) : DB ρ :=
  (names.filter fun n => (db.map (·.1)).contains n).foldl deleteFrom db

/-- legacy `delete_tables_with_prefix(path, prefix)`:
    `SELECT name FROM sqlite_master WHERE name LIKE prefix || '%'`, then `DELETE FROM` each -/
def purgeLike {ρ : Type} (db : DB ρ) (pfx : List Char) : DB ρ :=
  ((db.map (·.1)).filter fun n => like (pfx ++ ['%']) n).foldl deleteFrom db

/-- rows of a table (by exact stored name) -/
def rowsOf {ρ : Type} (db : DB ρ) (name : List Char) : Option (List ρ) :=
  match db with
  | [] => none
  | (n, rows) :: rest => if n = name then some rows else rowsOf rest name

end Pynenc.San
