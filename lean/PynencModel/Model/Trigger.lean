import PynencModel.Model.Basic
import PynencModel.Model.Cron
/-
  L1 model of pynenc's trigger subsystem: pynenc/trigger/base_trigger.py (`BaseTrigger`),
  mem_trigger.py (`MemTrigger`), sqlite_trigger.py (`SQLiteTrigger`), trigger_definitions.py
  (`TriggerDefinition`), trigger_context.py, conditions/*.py (context ids, `ValidCondition`),
  arguments/argument_providers.py.  Core Lean only.

  * An *occurrence* is a `VC` ("valid condition"): a condition id plus a context.  Its identity is
    `VC.key = (condition_id, context key)`; the context key is what `context_id` is built from.
  * `Store` is the state both backends keep: registered conditions (with `last_cron_execution`),
    triggers, the condition→trigger relation, pending valid conditions **in store order** (the order
    `get_valid_conditions` returns them in: dict order in memory, rowid order on SQLite — they differ
    when a key is written again), and run claims with their expiry.
  * `Store.sqlite` selects the backend where the two differ:
      - re-writing an existing valid-condition key keeps its position in memory and moves it to the end
        on SQLite (`INSERT OR REPLACE` deletes and re-inserts);
      - (`_register_condition` of an existing id is the same on both: position and `last_cron_execution`
        are kept — a dict assignment in memory, `INSERT … ON CONFLICT DO UPDATE SET condition_json` on SQLite);
      - `register_trigger` appends to the per-condition list in memory (duplicates possible) and
        replaces the `(condition, trigger)` row on SQLite;
      - `store_last_cron_execution` for an unregistered condition writes the dict in memory and
        updates no row on SQLite (both return `True`).
  * `plan` / `runPlan` / `loopIteration` are `trigger_loop_iteration` after the cron pass; the same
    pieces are the micro-steps of the concurrent system `Sys` further down, so that a runner executing
    alone is `loopIteration` by construction.
-/
namespace Pynenc.Trigger
open Pynenc

inductive Logic where
  | and
  | or
deriving Repr, DecidableEq

/-- context classes; `ResultContext` and `ExceptionContext` are subclasses of `StatusContext` -/
inductive Kind where
  | event
  | status
  | result
  | exception
  | cron
deriving Repr, DecidableEq

/-- `isinstance(context, provider.context_type)` -/
def kindMatches (want have_ : Kind) : Bool :=
  match want, have_ with
  | .status, .status => true
  | .status, .result => true
  | .status, .exception => true
  | a, b => decide (a = b)

/-- what `context_id` is made of: the identity of an occurrence within its condition -/
inductive CtxKey where
  | event (code id : String)
  | status (inv st : String)
  | result (inv : String)
  | exception (inv ty : String)
  | cron (ts : Int)
deriving Repr, DecidableEq

def CtxKey.kind : CtxKey → Kind
  | .event .. => .event
  | .status .. => .status
  | .result .. => .result
  | .exception .. => .exception
  | .cron .. => .cron

/-- the `context_id` string -/
def CtxKey.render : CtxKey → String
  | .event code id => s!"event_{code}_{id}"
  | .status inv st => s!"status_{inv}_{st}"
  | .result inv => s!"result_{inv}"
  | .exception inv ty => s!"exception_{inv}_{ty}"
  | .cron ts => s!"cron_{Cron.isoformat ts}"

/-- a condition context: its identity plus the data argument-provider callbacks read
    (`n`: event payload entry, `k`: call argument of the watched invocation, `res`: its result) -/
structure Ctx where
  key : CtxKey
  n : String := "-"
  k : String := "-"
  res : String := "-"
deriving Repr, DecidableEq

/-- a satisfied condition with the context that satisfied it (`ValidCondition`) -/
structure VC where
  cond : String
  ctx : Ctx
deriving Repr, DecidableEq

abbrev VCKey := String × CtxKey

def VC.key (v : VC) : VCKey := (v.cond, v.ctx.key)

/-- `ValidCondition.valid_condition_id` -/
def renderKey (k : VCKey) : String := s!"valid_condition_{k.1}_context_{k.2.render}"

/-- what a condition reacts to (argument / payload / result filters are the trivial ones) -/
inductive CondSpec where
  | event (code : String)
  | status (task : String) (statuses : List String)
  | result (task : String)
  | exception (task : String) (types : List String)
  | cron (expr : Cron.Expr) (cfg : Cron.Cfg)
deriving Repr, DecidableEq

structure Cond where
  id : String
  spec : CondSpec
deriving Repr, DecidableEq

def Cond.isCron (c : Cond) : Bool := match c.spec with | .cron .. => true | _ => false

/-- one argument provider of a trigger (`StaticArgumentProvider`, `ContextTypeArgumentProvider`) -/
inductive ProvItem where
  | static (tag : String)
  | ctxType (k : Kind)
deriving Repr, DecidableEq

/-- `TriggerDefinition`; `prov` = the builder's provider list (`[]` none, one, or a composite) -/
structure Trig where
  id : String
  task : String
  conds : List String
  logic : Logic
  prov : List ProvItem
deriving Repr, DecidableEq

/-- a trigger run id: trigger id + the valid-condition ids it covers (hashed together in the code) -/
abbrev RunId := String × List VCKey

structure Store where
  sqlite : Bool := false
  conds : List Cond := []
  lastCron : AMap String Int := []
  trigs : AMap String Trig := []
  condTrigs : List (String × String) := []
  valid : List VC := []
  claims : AMap RunId Int := []
deriving Repr

/-! ### ordered upsert -/

/-- write `v` under key `keyOf v`: in place when present and `toEnd = false`, else (re)appended -/
def upsertBy {α κ : Type} [DecidableEq κ] (keyOf : α → κ) (toEnd : Bool) (l : List α) (v : α) : List α :=
  if toEnd then l.filter (fun x => keyOf x ≠ keyOf v) ++ [v]
  else if l.any (fun x => keyOf x = keyOf v) then l.map (fun x => if keyOf x = keyOf v then v else x)
  else l ++ [v]

/-! ### store operations (each is one atomic step of the model) -/

namespace Store

/-- `_register_condition`: the definition is replaced in place, `last_cron_execution` is kept -/
def registerCond (s : Store) (c : Cond) : Store :=
  { s with conds := upsertBy Cond.id false s.conds c }

/-- `register_trigger` -/
def registerTrigger (s : Store) (t : Trig) : Store :=
  { s with trigs := s.trigs.set t.id t,
           condTrigs :=
             if s.sqlite then
               t.conds.foldl (fun acc c => upsertBy id true acc (c, t.id)) s.condTrigs
             else s.condTrigs ++ t.conds.map (fun c => (c, t.id)) }

/-- `clean_task_trigger_definitions` -/
def cleanTask (s : Store) (task : String) : Store :=
  let gone := (s.trigs.filter (fun p => p.2.task = task)).map (·.1)
  { s with trigs := s.trigs.filter (fun p => p.2.task ≠ task),
           condTrigs := s.condTrigs.filter (fun p => !gone.contains p.2) }

/-- `get_triggers_for_condition` -/
def triggersFor (s : Store) (cid : String) : List Trig :=
  (s.condTrigs.filter (fun p => p.1 = cid)).filterMap (fun p => s.trigs.get? p.2)

/-- `record_valid_condition` -/
def recordValid (s : Store) (v : VC) : Store :=
  { s with valid := upsertBy VC.key s.sqlite s.valid v }

def recordValids (s : Store) (vs : List VC) : Store := vs.foldl recordValid s

/-- `clear_valid_conditions` -/
def clearValid (s : Store) (ks : List VCKey) : Store :=
  { s with valid := s.valid.filter (fun v => !ks.contains v.key) }

/-- `claim_trigger_run(run_id, expiration_seconds)` at instant `now` (µs); `expiry` in µs -/
def claim (s : Store) (r : RunId) (now expiry : Int) : Store × Bool :=
  match s.claims.get? r with
  | some e => if e > now then (s, false) else ({ s with claims := s.claims.set r (now + expiry) }, true)
  | none => ({ s with claims := s.claims.set r (now + expiry) }, true)

/-- `get_last_cron_execution` -/
def getLastCron (s : Store) (cid : String) : Option Int := s.lastCron.get? cid

/-- `store_last_cron_execution(cid, t, expected)`: the comparison is skipped when `expected` is `None` -/
def casLastCron (s : Store) (cid : String) (t : Int) (expected : Option Int) : Store × Bool :=
  let cur := s.lastCron.get? cid
  if expected.isSome && cur != expected then (s, false)
  else if s.sqlite && !(s.conds.any (fun c => c.id = cid)) then (s, true)
  else ({ s with lastCron := s.lastCron.set cid t }, true)

end Store

/-! ### reporting occurrences: `emit_event`, `report_tasks_status`, `report_invocation_result`,
    `report_invocation_failure` -/

/-- is the condition satisfied by the context? (`is_satisfied_by`, trivial filters; the two report
    paths for results and failures only look at conditions of exactly that context class) -/
def condMatches (c : Cond) (x : Ctx) (task : String) : Bool :=
  match c.spec, x.key with
  | .event code, .event code' _ => code = code'
  | .status t sts, .status _ st => t = task && sts.contains st
  | .result t, .result _ => t = task
  | .exception t tys, .exception _ ty => t = task && (tys.isEmpty || tys.contains ty)
  | _, _ => false

/-- record one valid condition per registered condition the context satisfies (store order) -/
def Store.report (s : Store) (x : Ctx) (task : String) : Store :=
  s.recordValids ((s.conds.filter (fun c => condMatches c x task)).map (fun c => { cond := c.id, ctx := x }))

/-! ### cron pass: `check_time_based_triggers` / `_should_trigger_cron_condition` -/

def cronSat (e : Cron.Expr) (cfg : Cron.Cfg) (t : Int) (last : Option Int) : Bool :=
  (e.isSatisfiedBy cfg t last).getD false

/-- the shortcut through the runner-local cache: a cached last execution that already rules the poll out -/
def cachedBlocks (cache : AMap String Int) (cid : String) (e : Cron.Expr) (cfg : Cron.Cfg) (now : Int) : Bool :=
  match cache.get? cid with
  | some cl => !cronSat e cfg now (some cl)
  | none => false

/-- the cache after the stored value has been read -/
def cacheWith (cache : AMap String Int) (cid : String) (v : Option Int) : AMap String Int :=
  match v with
  | some st => cache.set cid st
  | none => cache

/-- one cron condition, one runner (with its local `_last_cron_execution_cache`), one instant -/
def cronStep (s : Store) (cache : AMap String Int) (cid : String) (e : Cron.Expr) (cfg : Cron.Cfg) (now : Int) :
    Store × AMap String Int × Bool :=
  if cachedBlocks cache cid e cfg now then (s, cache, false)
  -- the schedule is consulted with the stored value, also when nothing is stored yet
  else if !cronSat e cfg now (s.getLastCron cid) then (s, cacheWith cache cid (s.getLastCron cid), false)
  else if (s.casLastCron cid now (s.getLastCron cid)).2 then
    ((s.casLastCron cid now (s.getLastCron cid)).1.recordValid { cond := cid, ctx := { key := .cron now } },
     (cacheWith cache cid (s.getLastCron cid)).set cid now, true)
  else
    ((s.casLastCron cid now (s.getLastCron cid)).1,
     cacheWith (cacheWith cache cid (s.getLastCron cid)) cid ((s.casLastCron cid now (s.getLastCron cid)).1.getLastCron cid),
     false)

/-- `check_time_based_triggers(now)`: every registered cron condition in store order -/
def cronPass (s : Store) (cache : AMap String Int) (now : Int) : Store × AMap String Int × List String :=
  (s.conds.foldl
    (fun (acc : Store × AMap String Int × List String) c =>
      match c.spec with
      | .cron e cfg =>
        -- the list of conditions was read before the pass; each condition then sees the current store
        let (s', cache', fired) := cronStep acc.1 acc.2.1 c.id e cfg now
        (s', cache', if fired then acc.2.2 ++ [c.id] else acc.2.2)
      | _ => acc)
    (s, cache, []))

/-! ### the trigger part of `trigger_loop_iteration` -/

/-- arguments a provider callback derives from one context (the harness' callbacks) -/
def callbackArgs (want : Kind) (x : Ctx) : String × String :=
  match want, x.key with
  | .event, .event _ id => (x.n, "event:" ++ id)
  | .status, .status inv _ => (x.k, "status:" ++ inv)
  | .status, .result inv => (x.k, "status:" ++ inv)
  | .status, .exception inv _ => (x.k, "status:" ++ inv)
  | .result, .result inv => (x.res, "result:" ++ inv)
  | .exception, .exception inv ty => (ty, "exception:" ++ inv)
  | _, _ => ("?", "?")

/-- one provider on a trigger context: `ContextTypeArgumentProvider` takes the **first** context of its type -/
def provItemArgs (p : ProvItem) (ctx : List VC) : Option (String × String) :=
  match p with
  | .static tag => some (tag, "-")
  | .ctxType k => (ctx.find? (fun v => kindMatches k v.ctx.key.kind)).map (fun v => callbackArgs k v.ctx)

/-- `TriggerDefinition.get_arguments`: no provider → `{}`; several → the first that succeeds;
    `none` = `ArgumentProviderError` -/
def provArgs (ps : List ProvItem) (ctx : List VC) : Option (String × String) :=
  match ps with
  | [] => some ("-", "-")
  | _ => ps.findSome? (fun p => provItemArgs p ctx)

/-- one launch of the triggered task: task id and the two call arguments the harness inspects -/
structure Launch where
  task : String
  tag : String
  src : String
deriving Repr, DecidableEq

/-- one planned run of a trigger: claim `rid`, then launch with `args` (`none`: the provider raises) -/
structure Run where
  rid : RunId
  task : String
  args : Option (String × String)
deriving Repr, DecidableEq

def insertSorted (k : VCKey) : List VCKey → List VCKey
  | [] => [k]
  | x :: xs => if renderKey k ≤ renderKey x then k :: x :: xs else x :: insertSorted k xs

/-- `sorted(valid_condition_ids)` (by the id string) -/
def sortKeys (ks : List VCKey) : List VCKey := ks.foldr insertSorted []

/-- `should_trigger`: AND = every condition id has a pending occurrence in the context, OR = some -/
def shouldTrigger (t : Trig) (ctx : List VC) : Bool :=
  if t.conds.isEmpty then false
  else match t.logic with
    | .and => t.conds.all (fun c => ctx.any (fun v => v.cond = c))
    | .or => t.conds.any (fun c => ctx.any (fun v => v.cond = c))

/-- `generate_trigger_run_ids` + `get_arguments`: the runs of one ready trigger -/
def runsOf (t : Trig) (ctx : List VC) : List Run :=
  let mine := ctx.filter (fun v => t.conds.contains v.cond)
  match t.logic with
  | .and => [{ rid := (t.id, sortKeys (mine.map VC.key)), task := t.task, args := provArgs t.prov ctx }]
  | .or => mine.map (fun v => { rid := (t.id, [v.key]), task := t.task, args := provArgs t.prov ctx })

/-- the triggers that depend on some condition of the snapshot, in first-seen order
    (`affected_triggers` is a dict keyed by trigger id) -/
def affectedTrigs (s : Store) (vcs : List VC) : List Trig :=
  dedup (vcs.flatMap (fun v => s.triggersFor v.cond))

/-- the `TriggerContext` of a trigger: the valid conditions of the snapshot it depends on, in snapshot
    order (`get_valid_conditions` returns a dict, so the keys of a snapshot are distinct) -/
def ctxOf (s : Store) (vcs : List VC) (t : Trig) : List VC :=
  vcs.filter (fun v => (s.triggersFor v.cond).any (fun u => u.id = t.id))

/-- the triggers affected by a snapshot of valid conditions, each with its context -/
def affected (s : Store) (vcs : List VC) : List (Trig × List VC) :=
  (affectedTrigs s vcs).map (fun t => (t, ctxOf s vcs t))

structure Plan where
  runs : List Run
  clear : List VCKey
deriving Repr, DecidableEq

/-- everything `trigger_loop_iteration` decides from its reads (`get_valid_conditions`,
    `get_triggers_for_condition`): the runs to claim-and-launch, in order, and the valid conditions to
    clear afterwards — those that have a dependant trigger and all of whose dependants are ready -/
def plan (s : Store) : Plan :=
  let vcs := s.valid
  let aff := affected s vcs
  let ready := aff.filter (fun p => shouldTrigger p.1 p.2)
  let notReady := aff.filter (fun p => !shouldTrigger p.1 p.2)
  { runs := ready.flatMap (fun p => runsOf p.1 p.2),
    clear := (vcs.filter (fun v =>
        !(s.triggersFor v.cond).isEmpty &&
        !(notReady.any (fun p => p.2.any (fun w => w.key = v.key))))).map VC.key }

/-- outcome of the launching phase -/
structure RunOut where
  store : Store
  launches : List (RunId × Launch)
  raised : Bool
deriving Repr

/-- claim each run in order; a won claim is followed by the launch; a provider error aborts -/
def runPlan (s : Store) (now expiry : Int) : List Run → List (RunId × Launch) → RunOut
  | [], acc => { store := s, launches := acc, raised := false }
  | r :: rest, acc =>
    let (s', ok) := s.claim r.rid now expiry
    if ok then
      match r.args with
      | some (tag, src) => runPlan s' now expiry rest (acc ++ [(r.rid, { task := r.task, tag := tag, src := src })])
      | none => { store := s', launches := acc, raised := true }
    else runPlan s' now expiry rest acc

/-- default `expiration_seconds` of `claim_trigger_run`, in µs -/
def defaultExpiry : Int := 60000000

/-- `trigger_loop_iteration` after the cron pass, executed atomically -/
def triggerPass (s : Store) (now : Int) : RunOut :=
  if s.valid.isEmpty then { store := s, launches := [], raised := false }
  else
    let p := plan s
    let out := runPlan s now defaultExpiry p.runs []
    if out.raised then out else { out with store := out.store.clearValid p.clear }

/-- one whole `trigger_loop_iteration` of a runner with cache `cache` at instant `now` -/
def loopIteration (s : Store) (cache : AMap String Int) (now : Int) : RunOut × AMap String Int :=
  let (s1, cache1, _) := cronPass s cache now
  (triggerPass s1 now, cache1)

/-! ### concurrent runners: `trigger_loop_iteration`s interleaved at store-operation granularity -/

/-- where a runner is inside its iteration; `seen` (ghost) lists the run ids it has tried to claim so far -/
inductive PC where
  | idle                                                                      -- has not read the valid conditions yet
  | claiming (seen : List RunId) (todo : List Run) (clear : List VCKey)        -- next: claim the head of `todo` (or clear)
  | won (seen : List RunId) (r : Run) (todo : List Run) (clear : List VCKey)   -- claimed `r`, next: launch it
  | done (seen : List RunId)                                                  -- cleared, iteration over
  | aborted                                                                   -- a provider raised
deriving Repr, DecidableEq

structure Sys where
  store : Store
  pcs : Nat → PC
  launched : List (RunId × Launch)        -- every launch so far, with the run id it was made for

def updPC (f : Nat → PC) (i : Nat) (p : PC) : Nat → PC := fun j => if j = i then p else f j

/-- runner `i` performs its next store operation at instant `now` -/
def Sys.step (y : Sys) (i : Nat) (now : Int) : Sys :=
  match y.pcs i with
  | .idle =>
    if y.store.valid.isEmpty then { y with pcs := updPC y.pcs i (.done []) }
    else { y with pcs := updPC y.pcs i (.claiming [] (plan y.store).runs (plan y.store).clear) }
  | .claiming seen [] clr => { y with store := y.store.clearValid clr, pcs := updPC y.pcs i (.done seen) }
  | .claiming seen (r :: rest) clr =>
    { y with store := (y.store.claim r.rid now defaultExpiry).1,
             pcs := updPC y.pcs i (if (y.store.claim r.rid now defaultExpiry).2 then .won (r.rid :: seen) r rest clr
                                    else .claiming (r.rid :: seen) rest clr) }
  | .won seen r rest clr =>
    match r.args with
    | some (tag, src) =>
      { y with launched := y.launched ++ [(r.rid, { task := r.task, tag := tag, src := src })],
               pcs := updPC y.pcs i (.claiming seen rest clr) }
    | none => { y with pcs := updPC y.pcs i .aborted }
  | .done _ => y
  | .aborted => y

/-- environment steps that may happen between runner steps: a new occurrence is recorded -/
inductive Act where
  | run (i : Nat) (now : Int)
  | record (v : VC)
deriving Repr

def Sys.act (y : Sys) : Act → Sys
  | .run i now => y.step i now
  | .record v => { y with store := y.store.recordValid v }

def Sys.exec (y : Sys) : List Act → Sys
  | [] => y
  | a :: as => (y.act a).exec as

end Pynenc.Trigger
