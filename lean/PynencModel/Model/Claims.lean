import PynencModel.Model.Status
/-
  L2 model used by C02: any number of workers (threads / processes of any number of runners) and an
  arbitrary environment (pollers of other runners, recovery tasks, kill-and-reroute, clients) acting on
  ONE shared status store through the atomic transition.  A step is one atomic backend effect; an
  execution is any interleaving (`Reach`).  State is function-valued (unbounded ids and workers).

  Worker life cycle (base_orchestrator.py `get_*_invocations_to_run`, dist_invocation.py `run`):
    idle --claim: request PENDING as runner r--> claimed --start: request RUNNING as r--> inBody
         --finish: request SUCCESS / FAILED / RETRY as r--> done
  A refused request sends the worker to `done` (the code skips the invocation / swallows the error).
-/
namespace Pynenc.Claims
open Pynenc

inductive Phase where
  | idle | claimed | inBody | done
  deriving DecidableEq, Repr

structure Worker where
  runner : String
  inv    : String
  phase  : Phase
  /-- ghost: a KILLED or RUNNING_RECOVERY transition of `inv` succeeded since this worker entered the body -/
  killed : Bool
  deriving DecidableEq

structure Sys where
  recs : String → Option SRec
  w   : Nat → Worker

def upd {α β : Type} [DecidableEq α] (f : α → β) (k : α) (v : β) : α → β := fun j => if j = k then v else f j

def isKill (s : Status) : Bool := s == .killed || s == .runningRecovery

/-- mark every worker inside the body of `i` as killed -/
def markKilled (w : Nat → Worker) (i : String) : Nat → Worker :=
  fun k => if (w k).inv = i ∧ (w k).phase = .inBody then { w k with killed := true } else w k

@[simp] theorem markKilled_inv (w : Nat → Worker) (i : String) (k : Nat) : (markKilled w i k).inv = (w k).inv := by
  unfold markKilled; split <;> rfl
@[simp] theorem markKilled_phase (w : Nat → Worker) (i : String) (k : Nat) : (markKilled w i k).phase = (w k).phase := by
  unfold markKilled; split <;> rfl
@[simp] theorem markKilled_runner (w : Nat → Worker) (i : String) (k : Nat) : (markKilled w i k).runner = (w k).runner := by
  unfold markKilled; split <;> rfl
theorem markKilled_mono (w : Nat → Worker) (i : String) (k : Nat) (h : (w k).killed = true) :
    (markKilled w i k).killed = true := by
  unfold markKilled; split <;> simp [h]
theorem markKilled_hit (w : Nat → Worker) (i : String) (k : Nat) (h1 : (w k).inv = i) (h2 : (w k).phase = .inBody) :
    (markKilled w i k).killed = true := by
  unfold markKilled; simp [h1, h2]
theorem markKilled_miss (w : Nat → Worker) (i : String) (k : Nat) (h1 : (w k).inv ≠ i) :
    markKilled w i k = w k := by
  unfold markKilled; simp [h1]

/-- Environment assumption (named in DESIGN.md): the only requests made *in the name of the owner*
    on a RUNNING invocation, other than by the worker executing it (its `finish` step), are KILLED
    (runner shutdown); recovery requests override ownership and are always allowed. -/
def EnvAllowed (T : Table) (s : Sys) (i : String) (req : Status) (rid : Option String) : Prop :=
  ∀ c, s.recs i = some c → c.status = .running → rid = c.owner → isKill req = true ∨ (T (some req)).overrides = true

/-- a runner does not start an invocation while another of its own workers is still inside that
    invocation's body (a stopped / recovered runner id is not reused for the same invocation meanwhile) -/
def NoSelfReclaim (s : Sys) (k : Nat) : Prop :=
  ∀ j, j ≠ k → ¬ ((s.w j).inv = (s.w k).inv ∧ (s.w j).runner = (s.w k).runner ∧ (s.w j).phase = .inBody)

inductive Step (T : Table) : Sys → Sys → Prop where
  /-- any accepted status request by anybody that is not a kill/recovery of a running body -/
  | env (s : Sys) (i : String) (req : Status) (rid : Option String) (c r : SRec) :
      s.recs i = some c → step T (some c) req rid = .ok r → EnvAllowed T s i req rid → isKill req = false →
      Step T s { s with recs := upd s.recs i (some r) }
  /-- KILLED / RUNNING_RECOVERY accepted: the workers inside that body are now zombies -/
  | envKill (s : Sys) (i : String) (req : Status) (rid : Option String) (c r : SRec) :
      s.recs i = some c → step T (some c) req rid = .ok r → isKill req = true →
      Step T s { recs := upd s.recs i (some r), w := markKilled s.w i }
  | claimOk (s : Sys) (k : Nat) (c r : SRec) :
      (s.w k).phase = .idle → s.recs (s.w k).inv = some c →
      step T (some c) .pending (some (s.w k).runner) = .ok r →
      Step T s { recs := upd s.recs (s.w k).inv (some r), w := upd s.w k { s.w k with phase := .claimed } }
  | claimFail (s : Sys) (k : Nat) :
      (s.w k).phase = .idle → Step T s { s with w := upd s.w k { s.w k with phase := .done } }
  | startOk (s : Sys) (k : Nat) (c r : SRec) :
      (s.w k).phase = .claimed → NoSelfReclaim s k → s.recs (s.w k).inv = some c →
      step T (some c) .running (some (s.w k).runner) = .ok r →
      Step T s { recs := upd s.recs (s.w k).inv (some r), w := upd s.w k { s.w k with phase := .inBody, killed := false } }
  | startFail (s : Sys) (k : Nat) :
      (s.w k).phase = .claimed → Step T s { s with w := upd s.w k { s.w k with phase := .done } }
  /-- the body ends; the worker requests its outcome; accepted or refused, it is done -/
  | finishOk (s : Sys) (k : Nat) (outcome : Status) (c r : SRec) :
      (s.w k).phase = .inBody → (outcome = .success ∨ outcome = .failed ∨ outcome = .retry) →
      s.recs (s.w k).inv = some c → step T (some c) outcome (some (s.w k).runner) = .ok r →
      Step T s { recs := upd s.recs (s.w k).inv (some r), w := upd s.w k { s.w k with phase := .done } }
  | finishRefused (s : Sys) (k : Nat) :
      (s.w k).phase = .inBody → Step T s { s with w := upd s.w k { s.w k with phase := .done } }

inductive Reach (T : Table) (s0 : Sys) : Sys → Prop where
  | refl : Reach T s0 s0
  | step (s s' : Sys) : Reach T s0 s → Step T s s' → Reach T s0 s'

end Pynenc.Claims
