/-
  One accepted invocation that nobody awaits, its messages in the queue, and a runner that consumes a poll LAZILY (core Lean only) — C03.

  `get_invocations_to_run` is a generator: the runner starts each invocation it is handed before the next message is popped, so the
  invocation may be re-queued (retry, reroute, recovery: status first, then the push) while the same poll is still going on.
  `get_additional_invocations_to_run` skips — and thereby consumes — the messages of the ids in `blocking_invocation_ids` without
  looking at their status; the code adds to that set only the ids claimed through the wait graph (awaited invocations, which stay
  claimable through the wait graph).  `Variant.markClaimed` also adds every id the queue part hands out.
-/
namespace Pynenc.LazyPoll

inductive St where
  | avail     -- REGISTERED / RETRY / REROUTED: available, held by nobody
  | held      -- PENDING / RUNNING under a runner
  | final
  deriving DecidableEq, Repr

structure S where
  status  : St
  /-- messages of the invocation in the queue -/
  msgs    : Nat
  /-- pushes that are due: the status has been written, the message not yet routed -/
  pend    : Nat
  polling : Bool
  /-- the id is in the skip set of the poll that is going on -/
  skip    : Bool
  deriving DecidableEq, Repr

inductive Variant where
  | code
  | markClaimed
  deriving DecidableEq, Repr

def init : S := { status := .avail, msgs := 0, pend := 1, polling := false, skip := false }

inductive Step (v : Variant) : S → S → Prop where
  | push (s : S) : 0 < s.pend → Step v s { s with pend := s.pend - 1, msgs := s.msgs + 1 }
  | pollStart (s : S) : s.polling = false → Step v s { s with polling := true, skip := false }
  | popSkipped (s : S) : s.polling = true → 0 < s.msgs → s.skip = true → Step v s { s with msgs := s.msgs - 1 }
  | popClaim (s : S) : s.polling = true → 0 < s.msgs → s.skip = false → s.status = .avail →
      Step v s { s with msgs := s.msgs - 1, status := .held, skip := (match v with | .code => false | .markClaimed => true) }
  | popDropped (s : S) : s.polling = true → 0 < s.msgs → s.skip = false → s.status ≠ .avail → Step v s { s with msgs := s.msgs - 1 }
  | pollEnd (s : S) : s.polling = true → Step v s { s with polling := false, skip := false }
  /-- retry / reroute / recovery: the status write, the push follows -/
  | requeue (s : S) : s.status = .held → Step v s { s with status := .avail, pend := s.pend + 1 }
  | finish (s : S) : s.status = .held → Step v s { s with status := .final }

inductive Reach (v : Variant) : S → Prop where
  | init : Reach v init
  | step (s s' : S) : Reach v s → Step v s s' → Reach v s'

/-- the invocation is not lost: available means a message is queued or about to be -/
def Safe (s : S) : Prop := s.status = .avail → 1 ≤ s.msgs + s.pend

end Pynenc.LazyPoll
