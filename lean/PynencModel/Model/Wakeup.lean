/-
  Re-queueing an invocation against concurrent pollers (core Lean only).

  `BaseOrchestrator.reroute_invocations`, `set_invocation_retry` and the registration path all make an invocation
  available again with two effects: a status write (REROUTED / RETRY / REGISTERED: available for run, no owner) and a broker
  push.  Pollers (`get_additional_invocations_to_run`) pop one message at a time; a popped message whose invocation is
  available is claimed (PENDING under the poller), a popped message whose invocation is NOT available is silently dropped.
  The order of the two effects decides whether a message can be lost.
-/
namespace Pynenc.Wakeup

/-- one invocation as pollers and the re-queueing actor see it -/
structure S where
  /-- the status is available for run and un-owned (REGISTERED / REROUTED / RETRY) -/
  avail : Bool
  /-- some runner has claimed it since (PENDING / RUNNING … under that runner) -/
  held : Bool
  /-- copies of its message in the broker queue -/
  queued : Nat
  /-- effects of the re-queueing actor done so far (0, 1, 2) -/
  pc : Nat
  deriving DecidableEq, Repr

inductive Order where
  | statusThenPush      -- the order of the code: `set_invocation_status(REROUTED)` · `broker.route_invocation`
  | pushThenStatus
  deriving DecidableEq, Repr

/-- next effect of the re-queueing actor -/
def requeueStep (ord : Order) (s : S) : Option S :=
  match ord, s.pc with
  | .statusThenPush, 0 => some { s with avail := true, pc := 1 }
  | .statusThenPush, 1 => some { s with queued := s.queued + 1, pc := 2 }
  | .pushThenStatus, 0 => some { s with queued := s.queued + 1, pc := 1 }
  | .pushThenStatus, 1 => some { s with avail := true, pc := 2 }
  | _, _ => none

/-- one poll of any runner: pop; claim when available, drop otherwise -/
def pollStep (s : S) : Option S :=
  if s.queued = 0 then none
  else if s.avail && !s.held then some { s with queued := s.queued - 1, avail := false, held := true }
  else some { s with queued := s.queued - 1 }

inductive Step (ord : Order) : S → S → Prop where
  | requeue (s s' : S) : requeueStep ord s = some s' → Step ord s s'
  | poll (s s' : S) : pollStep s = some s' → Step ord s s'

inductive Reach (ord : Order) (s0 : S) : S → Prop where
  | refl : Reach ord s0 s0
  | step (s s' : S) : Reach ord s0 s → Step ord s s' → Reach ord s0 s'

/-- the invocation can still be picked up: it is held, or a message is queued for it -/
def Reachable (s : S) : Prop := s.held = true ∨ s.queued ≥ 1

/-- LOST: available, un-owned, in no queue, and nobody is going to queue it -/
def Lost (s : S) : Prop := s.avail = true ∧ s.held = false ∧ s.queued = 0 ∧ s.pc = 2

end Pynenc.Wakeup
