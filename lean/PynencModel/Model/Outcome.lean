import PynencModel.Model.Status
/-
  L2 model used by C05: workers finishing invocations and readers, interleaved at backend-effect
  granularity.  The worker's program is `set_invocation_result` / `set_invocation_exception`
  (base_orchestrator.py): store the outcome, THEN request the final status.  `returned` / `raised`
  are ghost sets of what completed executions of the task body produced.
-/
namespace Pynenc.Outcome
open Pynenc

inductive Phase (V E : Type) where
  | idle | running | ranOk (v : V) | storedOk | ranFail (e : E) | storedFail | done

structure Worker (V E : Type) where
  inv   : String
  phase : Phase V E

structure Sys (V E : Type) where
  status   : String → Option Status
  result   : String → Option V
  exc      : String → Option E
  returned : String → V → Prop
  raised   : String → E → Prop
  w        : Nat → Worker V E

def upd {α β : Type} [DecidableEq α] (f : α → β) (k : α) (v : β) : α → β := fun j => if j = k then v else f j

inductive Step {V E : Type} : Sys V E → Sys V E → Prop where
  | start (s : Sys V E) (k : Nat) : (s.w k).phase = .idle →
      Step s { s with w := upd s.w k { s.w k with phase := .running } }
  | bodyReturns (s : Sys V E) (k : Nat) (v : V) : (s.w k).phase = .running →
      Step s { s with w := upd s.w k { s.w k with phase := .ranOk v },
                      returned := fun i x => s.returned i x ∨ (i = (s.w k).inv ∧ x = v) }
  | bodyRaises (s : Sys V E) (k : Nat) (e : E) : (s.w k).phase = .running →
      Step s { s with w := upd s.w k { s.w k with phase := .ranFail e },
                      raised := fun i x => s.raised i x ∨ (i = (s.w k).inv ∧ x = e) }
  /-- `state_backend.set_result` -/
  | storeResult (s : Sys V E) (k : Nat) (v : V) : (s.w k).phase = .ranOk v →
      Step s { s with result := upd s.result (s.w k).inv (some v), w := upd s.w k { s.w k with phase := .storedOk } }
  /-- `state_backend.set_exception` -/
  | storeExc (s : Sys V E) (k : Nat) (e : E) : (s.w k).phase = .ranFail e →
      Step s { s with exc := upd s.exc (s.w k).inv (some e), w := upd s.w k { s.w k with phase := .storedFail } }
  /-- `set_invocation_status(SUCCESS)`: accepted or refused (`ok`), the worker is done -/
  | publishSuccess (s : Sys V E) (k : Nat) (ok : Bool) : (s.w k).phase = .storedOk →
      Step s { s with status := if ok then upd s.status (s.w k).inv (some .success) else s.status,
                      w := upd s.w k { s.w k with phase := .done } }
  | publishFailed (s : Sys V E) (k : Nat) (ok : Bool) : (s.w k).phase = .storedFail →
      Step s { s with status := if ok then upd s.status (s.w k).inv (some .failed) else s.status,
                      w := upd s.w k { s.w k with phase := .done } }
  /-- any other status change by anybody (claims, retries, reroutes, kills, recoveries, …): never SUCCESS / FAILED,
      which only `set_invocation_result` / `set_invocation_exception` request -/
  | env (s : Sys V E) (i : String) (st : Status) : st ≠ .success → st ≠ .failed →
      Step s { s with status := upd s.status i (some st) }

inductive Reach {V E : Type} (s0 : Sys V E) : Sys V E → Prop where
  | refl : Reach s0 s0
  | step (s s' : Sys V E) : Reach s0 s → Step s s' → Reach s0 s'

/-- what a client gets from `get_final_result` -/
inductive Read (V E : Type) where
  | value (v : V) | raises (e : E) | notFinal | missing
  deriving DecidableEq

/-- `DistributedInvocation.get_final_result`: refuse non-final, raise the stored exception on FAILED,
    return the stored result otherwise (`finalSet` = the final statuses of the status table) -/
def getFinalResult {V E : Type} (isFinal : Status → Bool) (s : Sys V E) (i : String) : Read V E :=
  match s.status i with
  | none => .notFinal
  | some st =>
    if !isFinal st then .notFinal
    else if st = .failed then (match s.exc i with | some e => .raises e | none => .missing)
    else (match s.result i with | some v => .value v | none => .missing)

end Pynenc.Outcome
