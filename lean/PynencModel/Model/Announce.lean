/-
  Announcing a wait against the awaited invocation finishing at the same time (core Lean only) — C09.

  A task body reads a sub-task's result (`DistributedInvocation.result`, `DistributedInvocationGroup.results`):
    r0  status check                     not final → r1, final → done (no announcement)
    r1  `orchestrator.waiting_for_results(parent, [x])`: the edge parent → x is recorded
    r2  (repaired code) `filter_final([x])`   final → r3, not final → r4
    r3  (repaired code) `release_waiters(x)`  the edges into x are deleted → r4
    r4  wait loop: status check          final → done, not final → stay
  The sub-task's runner finishes it (`set_invocation_status(final)`):
    f0  the final status is written      → f1
    f1  `release_waiters(x)`             the edges into x are deleted → f2 (done)
  Any other actor that announces a wait for the same finished x releases its waiters as well (`other`).
  One reader is followed; the edges of other readers into x live in other rows / sets and do not matter to this one.
-/
namespace Pynenc.Announce

structure S where
  /-- the awaited invocation's status is final -/
  final : Bool
  /-- the edge reader → awaited is recorded in the wait graph -/
  edge : Bool
  /-- reader: 0 check · 1 record · 2 re-check · 3 release · 4 wait loop · 5 done -/
  rpc : Nat
  /-- finisher: 0 running · 1 status written · 2 released -/
  fpc : Nat
  deriving DecidableEq, Repr

inductive Variant where
  | repaired        -- record, then release what `filter_final` returns (the code now)
  | announceOnly    -- record only (the code before repair 6a5f3fe)
  deriving DecidableEq, Repr

def readerStep (v : Variant) (s : S) : Option S :=
  match s.rpc with
  | 0 => some { s with rpc := if s.final then 5 else 1 }
  | 1 => some { s with edge := true, rpc := match v with | .repaired => 2 | .announceOnly => 4 }
  | 2 => some { s with rpc := if s.final then 3 else 4 }
  | 3 => some { s with edge := false, rpc := 4 }
  | 4 => some { s with rpc := if s.final then 5 else 4 }
  | _ => none

def finisherStep (s : S) : Option S :=
  match s.fpc with
  | 0 => some { s with final := true, fpc := 1 }
  | 1 => some { s with edge := false, fpc := 2 }
  | _ => none

/-- somebody else announces a wait for the same invocation and finds it final: its waiters are released -/
def otherStep (s : S) : Option S := if s.final then some { s with edge := false } else none

inductive Step (v : Variant) : S → S → Prop where
  | reader (s s' : S) : readerStep v s = some s' → Step v s s'
  | finisher (s s' : S) : finisherStep s = some s' → Step v s s'
  | other (s s' : S) : otherStep s = some s' → Step v s s'

inductive Reach (v : Variant) (s0 : S) : S → Prop where
  | refl : Reach v s0 s0
  | step (s s' : S) : Reach v s0 s → Step v s s' → Reach v s0 s'

/-- the reader is about to check, nothing recorded, the sub-task still open -/
def init : S := { final := false, edge := false, rpc := 0, fpc := 0 }

end Pynenc.Announce
