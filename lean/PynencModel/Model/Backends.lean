import PynencModel.Model.OrchQueries
import PynencModel.Model.StateBackend
import PynencModel.Model.Blocking
/-
  The executable reference model of C16: ONE abstract state (`World`) behind the public operations of
  orchestrator + wait graph + broker + state backend, `step` for the state-changing operations (as the
  base classes compose them: `register_new_invocations`, `set_invocation_status`, …) and `observe` for
  the queries.  Queries whose algorithm differs between the two families take the family as a
  parameter (`Fam`), so that the in-memory stack is compared with the in-memory algorithm and the
  SQLite stack with the SQL one; `Props/C16.lean` proves the pairs equal as functions of the state.
  Core Lean only.
-/
namespace Pynenc.Backends
open Pynenc Pynenc.Blocking

inductive Fam where
  | mem | sql
  deriving DecidableEq, Repr

structure World where
  orch  : Orch := {}
  ext   : OrchExt := {}
  /-- broker FIFO (C08 proves both brokers refine it) -/
  queue : List String := []
  bcMem : MemBC String := {}
  bcSql : SqlBC String := []
  sb    : SB := {}
  deriving Repr

/-- one invocation handed to `register_new_invocations` -/
structure Item where
  id     : String
  info   : InvInfo
  parent : Option String
  deriving DecidableEq, Repr

inductive Op where
  /-- `register_new_invocations(items)` by the external runner context `(rid, cls)` at `now`, followed by
      `index_arguments_for_concurrency_control` for every item when `index`
      (`task(...)`: one item; `parallelize`: several; the raw call on an existing invocation: `index = false`) -/
  | register (items : List Item) (rid cls : String) (index : Bool) (now : Int)
  /-- `set_invocation_status(id, req, RunnerContext(rid, cls))` -/
  | setStatus (id : String) (req : Status) (rid cls : String) (now : Int)
  | incrRetries (id : String)
  | heartbeat (rids : List String) (elig : Bool) (now : Int)
  | recordService (rid : String) (s t : Int)
  /-- `orchestrator.waiting_for_results(waiter, ids)` (`None` / `""` waiter and `[]` are ignored) -/
  | wait (waiter : Option String) (ids : List String)
  | release (id : String)
  | route (id : String)
  | retrieve
  | setUpPurge (id : String) (now : Int)
  /-- `auto_purge()` at `now` with a retention of `keep` µs -/
  | autoPurge (now keep : Int)
  | setResult (id v : String)
  | setException (id v : String)
  /-- `state_backend.add_history(id, record, RunnerContext(rid, cls))` at `now` -/
  | addHistory (id : String) (status : Status) (owner : Option String) (rid cls : String) (now : Int)
  | setWf (wf key v : String)
  /-- `store_runner_context` of a context chain, child first -/
  | storeRctx (chain : List (String × RCtx))
  | brokerPurge
  | orchPurge
  | sbPurge
  /-- `app.purge()` -/
  | appPurge
  deriving Repr

inductive Query where
  | status (id : String)
  | retries (id : String)
  | taskIds (task : String)
  | callIds (call : String)
  | existing (f : Fam) (task : String) (statuses : List Status) (key : List (String × String))
  | page (f : Fam) (task : Option String) (statuses : List Status) (limit offset : Int)
  | count (task : Option String) (statuses : List Status)
  | filterByStatus (ids : List String) (filter : List Status)
  | active (now timeout : Int) (elig : Option Bool)
  | blocking (f : Fam) (limit : Int)
  | pscan (now maxPending : Int)
  | rscan (f : Fam) (now timeout : Int)
  | queueCount
  | hasInv (id : String)
  | children (id : String)
  | result (id : String)
  | exception (id : String)
  | history (id : String)
  | wf (wf key : String)
  | rctx (rid : String)
  | matchRctx (part : String)
  | appInfo
  deriving Repr

/-! ### helpers -/

def strLe (a b : String) : Bool := a ≤ b

def sortStr (l : List String) : List String := sortBy strLe l

def showList (l : List String) : String := if l.isEmpty then "[]" else " ".intercalate l

def showSet (l : List String) : String := showList (sortStr (dedup l))

def showOpt : Option String → String
  | none => "-"
  | some s => if s == "" then "e" else "s" ++ s

def showRec (r : ORec) : String := s!"{r.status.name} {showOpt r.owner} {r.ts}"

def showSetErr : SetErr → String
  | .status .transition => "err transition"
  | .status .ownership => "err ownership"
  | .unknownId => "err keyerror"

/-- "available for run" as the wait graph sees it: status of a known id in the table's available set -/
def avail (T : Table) (w : World) (id : String) : Bool :=
  match w.orch.statusOf id with
  | some s => (T (some s)).available
  | none => false

/-- `filter_final`: a known id whose status is final -/
def finalOf (T : Table) (w : World) (id : String) : Bool :=
  match w.orch.statusOf id with
  | some s => (T (some s)).isFinal
  | none => false

/-- `release_waiters(id)` on both wait-graph representations -/
def releaseBoth (w : World) (id : String) : World :=
  { w with bcMem := memStep w.bcMem (.release id), bcSql := sqlStep w.bcSql (.release id) }

/-- substring test (`partial in runner_id`) -/
def isInfix (p s : List Char) : Bool :=
  match s with
  | [] => p.isEmpty
  | c :: cs => p.isPrefixOf (c :: cs) || isInfix p cs

/-! ### state-changing operations -/

/-- `register_new_invocations` for one item: upsert · `_register_new_invocations` (DO NOTHING for a
    known id) · history entry with the fresh REGISTERED record · route -/
def registerOne (rid : String) (now : Int) (w : World) (it : Item) : World :=
  { w with
    sb := (w.sb.upsert it.id it.parent).addHistory
            { inv := it.id, ts := now, status := .registered, owner := some rid, runner := rid },
    orch := w.orch.registerInv it.id it.info (some rid) now,
    queue := w.queue ++ [it.id] }

/-- one purge-due invocation leaves the orchestrator: waiters released, record / indexes / retries /
    mark deleted -/
def purgeOne (w : World) (id : String) : World :=
  let w1 := releaseBoth w id
  { w1 with orch := w1.orch.forget id, ext := { w1.ext with purgeAt := w1.ext.purgeAt.erase id } }

def orchPurged (w : World) : World := { w with orch := {}, ext := {}, bcMem := {}, bcSql := [] }

def step (T : Table) (w : World) : Op → World × String
  | .register items rid cls index now =>
    let w1 := { w with sb := w.sb.storeRctx [(rid, { cls := cls, parent := none })] }
    let w2 := items.foldl (registerOne rid now) w1
    let w3 := if index then { w2 with orch := items.foldl (fun o it => o.indexArgs it.id) w2.orch } else w2
    (w3, "ok")
  | .setStatus id req rid cls now =>
    match w.orch.setStatus T id req (some rid) now with
    | (_, .error e) => (w, showSetErr e)
    | (o', .ok r) =>
      let w1 := { w with orch := o' }
      let w2 := if (T (some req)).isFinal then
                  let w' := releaseBoth w1 id
                  { w' with ext := w'.ext.setUp w'.orch id now }
                else w1
      let sb1 := w2.sb.storeRctx [(rid, { cls := cls, parent := none })]
      let sb2 := sb1.addHistory { inv := id, ts := now, status := r.status, owner := r.owner, runner := rid }
      -- `trigger.report_tasks_status([id])` comes last and looks the invocation up in the state backend:
      -- for an id whose record was purged there the call raises AFTER the change happened
      ({ w2 with sb := sb2 }, if w2.sb.hasInv id then "ok " ++ showRec r else "err notfound")
  | .incrRetries id => ({ w with orch := w.orch.incrRetriesKnown id }, "ok")
  | .heartbeat rids elig now => ({ w with orch := w.orch.heartbeat rids elig now }, "ok")
  | .recordService rid s t => ({ w with ext := w.ext.recordService w.orch rid s t }, "ok")
  | .wait waiter ids =>
    if truthy waiter then
      match waiter with
      | some wt =>
        let w1 := { w with bcMem := memStep w.bcMem (.wait wt ids), bcSql := sqlStep w.bcSql (.wait wt ids) }
        -- `for final_id in self.filter_final(ids): self.blocking_control.release_waiters(final_id)`
        ((ids.filter (finalOf T w)).foldl releaseBoth w1, "ok")
      | none => (w, "ok")
    else (w, "ok")
  | .release id => (releaseBoth w id, "ok")
  | .route id => ({ w with queue := w.queue ++ [id] }, "ok")
  | .retrieve =>
    match w.queue with
    | [] => (w, "-")
    | i :: q => ({ w with queue := q }, "s" ++ i)
  | .setUpPurge id now => ({ w with ext := w.ext.setUp w.orch id now }, "ok")
  | .autoPurge now keep => ((w.ext.due now keep).foldl purgeOne w, "ok")
  | .setResult id v => ({ w with sb := w.sb.setResult id v }, "ok")
  | .setException id v => ({ w with sb := w.sb.setException id v }, "ok")
  | .addHistory id st owner rid cls now =>
    let sb1 := w.sb.storeRctx [(rid, { cls := cls, parent := none })]
    ({ w with sb := sb1.addHistory { inv := id, ts := now, status := st, owner := owner, runner := rid } }, "ok")
  | .setWf wf key v => ({ w with sb := w.sb.setWf wf key v }, "ok")
  | .storeRctx chain => ({ w with sb := w.sb.storeRctx chain }, "ok")
  | .brokerPurge => ({ w with queue := [] }, "ok")
  | .orchPurge => (orchPurged w, "ok")
  | .sbPurge => ({ w with sb := w.sb.purge }, "ok")
  | .appPurge => ({ (orchPurged w) with queue := [], sb := w.sb.purge }, "ok")

def run (T : Table) (w : World) (ops : List Op) : World := ops.foldl (fun w op => (step T w op).1) w

/-- results of the operations of a history, in order -/
def outs (T : Table) : World → List Op → List String
  | _, [] => []
  | w, op :: rest => (step T w op).2 :: outs T (step T w op).1 rest

/-! ### queries -/

/-- a page, canonical up to the unspecified order inside one timestamp class: per class (newest
    first) the sorted ids when the whole class is on the page, `#n` when the page cuts through it -/
def showPage (o : Orch) (all page : List String) : String :=
  let classes := dedup (page.map o.tsOf)
  showList (classes.map fun t =>
    let inPage := page.filter fun i => decide (o.tsOf i = t)
    let inAll := all.filter fun i => decide (o.tsOf i = t)
    if inPage.length = inAll.length then s!"{t}:" ++ ",".intercalate (sortStr inPage)
    else s!"{t}:#{inPage.length}")

def showHist (l : List HistE) : String :=
  showList (sortStr (l.map fun e => s!"{e.ts}/{e.status.name}/{showOpt e.owner}/{e.runner}"))

def showActive (w : World) (rids : List String) : String :=
  let rows := rids.map fun r =>
    match w.orch.hb.get? r with
    | none => ((0 : Int), r, "?")
    | some h =>
      let sv := match w.ext.svc.get? r with | some (s, t) => s!"{s}~{t}" | none => "-"
      (h.created, r, s!"{h.created}/{r}/{if h.eligible then 1 else 0}/{h.last}/{sv}")
  let sorted := sortBy (fun a b => decide (a.1 < b.1) || (decide (a.1 = b.1) && strLe a.2.1 b.2.1)) rows
  showList (sorted.map (·.2.2))

def observe (T : Table) (w : World) : Query → String
  | .status id => match w.orch.get id with | some r => showRec r | none => "err keyerror"
  | .retries id => toString (w.orch.getRetries id)
  | .taskIds t => showSet (w.orch.taskIds t)
  | .callIds c => showSet (w.orch.callIds c)
  | .existing .sql task ss key => showSet (w.orch.existing task key ss)
  | .existing .mem task ss key => showSet (w.orch.existingMem task key ss)
  | .page f task ss limit offset =>
    let all := w.orch.cands task ss
    showPage w.orch all (match f with | .mem => w.orch.memPage task ss limit offset | .sql => w.orch.sqlPage task ss limit offset)
  | .count task ss => toString (w.orch.count task ss)
  | .filterByStatus ids filter => showSet (w.orch.filterByStatus ids filter)
  | .active now timeout elig => showActive w (w.orch.activeRunners now timeout elig)
  | .blocking .mem limit =>
    s!"{(memBlocking w.bcMem limit (avail T w)).length} " ++ showSet (memBlockingAll w.bcMem (avail T w))
  | .blocking .sql limit =>
    s!"{(sqlBlocking w.bcSql limit (avail T w)).length} " ++ showSet (sqlBlockingAll w.bcSql (avail T w))
  | .pscan now mp => showSet (w.orch.pendingScan now mp)
  | .rscan .mem now to => showSet (w.orch.runningScanMem now to)
  | .rscan .sql now to => showSet (w.orch.runningScanSql now to)
  | .queueCount => toString w.queue.length
  | .hasInv id => if w.sb.hasInv id then "yes" else "err notfound"
  | .children id => showSet (w.sb.children id)
  | .result id => match w.sb.getResult id with | some v => "s" ++ v | none => "err keyerror"
  | .exception id => match w.sb.getException id with | some v => "s" ++ v | none => "err keyerror"
  | .history id => showHist (w.sb.history id)
  | .wf wf key => showOpt (w.sb.getWf wf key)
  | .rctx rid => match w.sb.getRctx rid with | some c => s!"{c.cls} {showOpt c.parent}" | none => "-"
  | .matchRctx part => showSet ((w.sb.rctxs.filter fun p => isInfix part.toList p.1.toList).map (·.1))
  | .appInfo => if w.sb.appInfo then "yes" else "err missing"

end Pynenc.Backends
