/-
  One kind of deterministic operation (random / uuid / time) of one workflow, over any number of executions, with TRANSIENT read
  faults (core Lean only) — C18.

  `DeterministicExecutor._deterministic_operation`: `sequence = self._get_next_sequence(op)` (an executor-local counter, a fresh
  executor per execution), the record `op:sequence` is looked up, a recorded value is returned, otherwise a value is generated,
  recorded and returned.  A lookup that FAILS raises: the execution ends there.  What is generated is left completely open (every
  generation yields a value never seen before - `fresh`): only the records can make two executions agree.
  `Variant.retryBurn` retries a failed lookup after having advanced the counter again.
-/
namespace Pynenc.DetOp

structure S where
  store : Nat → Option Nat
  fresh : Nat

inductive Variant where
  | code
  | retryBurn
  deriving DecidableEq, Repr

def upd (f : Nat → Option Nat) (i : Nat) (v : Nat) : Nat → Option Nat := fun j => if j = i then some v else f j

/-- look the record of sequence `q` up; generate and record when there is none -/
def serve (s : S) (q : Nat) : S × Nat :=
  match s.store q with
  | some x => (s, x)
  | none => ({ store := upd s.store q s.fresh, fresh := s.fresh + 1 }, s.fresh)

/-- one execution: the draws of the body, each with "its first lookup fails"; `c` is the executor's counter -/
def exec (v : Variant) : S → Nat → List Bool → S × List Nat
  | s, _, [] => (s, [])
  | s, c, false :: rest =>
    let (s1, x) := serve s (c + 1)
    let (s2, xs) := exec v s1 (c + 1) rest
    (s2, x :: xs)
  | s, c, true :: rest =>
    match v with
    | .code => (s, [])                                   -- the lookup raises: the execution ends
    | .retryBurn =>
      let (s1, x) := serve s (c + 2)                     -- counter advanced once more, second lookup answers
      let (s2, xs) := exec v s1 (c + 2) rest
      (s2, x :: xs)

/-- a workflow's life: executions one after the other (retries, recovery re-runs), each with its own fault pattern -/
def life (v : Variant) : S → List (List Bool) → S × List (List Nat)
  | s, [] => (s, [])
  | s, f :: fs =>
    let (s1, out) := exec v s 0 f
    let (s2, outs) := life v s1 fs
    (s2, out :: outs)

def init : S := { store := fun _ => none, fresh := 0 }

end Pynenc.DetOp
