import PynencModel.Model.Status
/-
  L2 model used by C11: ONE invocation claimed by a thread runner `self`, its task thread, and the loop thread
  executing `ThreadRunner._on_stop` for it (`_kill_and_reroute` then `join` when the thread is alive; `join` then
  `_kill_and_reroute` when it is dead), interleaved at backend-effect granularity.  Invocations of one runner are
  independent of each other for this property (disjoint records; queue pushes commute), so the per-invocation system
  is the whole story; it is finite, and every interleaving is enumerated.
  Executable, core Lean only.
-/
namespace Pynenc.Stop
open Pynenc

/-- what the task body will do -/
inductive Script where
  | ok | fail | retry | waitChild      -- waitChild: the body waits for a sub-task nobody will run any more
  | pause            -- the body raises WorkflowPauseError: `run` only logs it — the thread ends, the invocation stays RUNNING
  | startFault       -- the store fails at the PENDING → RUNNING write: the handler's PENDING → FAILED is refused, the thread
                     -- dies, the invocation stays PENDING under this runner
  deriving DecidableEq, Repr

/-- program counter of the task thread (`DistributedInvocation.run`) -/
inductive TPc where
  | start          -- claimed, about to request RUNNING
  | body           -- inside the task body
  | store          -- body returned / raised: about to store the outcome (or count the retry)
  | publish        -- about to request SUCCESS / FAILED / RETRY
  | push           -- RETRY accepted: about to re-queue
  | waiting        -- spinning in the wait loop for a child that is not final
  | done
  deriving DecidableEq, Repr

/-- program counter of the loop thread's stop procedure for this invocation -/
inductive KPc where
  | check          -- `thread.is_alive()` not evaluated yet
  | kill           -- alive branch: about to request KILLED
  | reroute        -- KILLED accepted: about to request REROUTED
  | push           -- REROUTED accepted: about to push
  | join           -- waiting for the thread to end (alive branch, after the reroute attempt)
  | joinDead       -- dead branch: join (returns at once), then the reroute attempt
  | killDead | rerouteDead | pushDead
  | done
  deriving DecidableEq, Repr

structure St where
  sr     : SRec
  queued : Nat
  t      : TPc
  k      : KPc
  script : Script
  deriving DecidableEq, Repr

def self : Option String := some "self"

def req (T : Table) (s : St) (st : Status) : Option SRec :=
  match step T (some s.sr) st self with
  | .ok r => some r
  | .error _ => none

/-- one step of the task thread (none = not enabled / finished) -/
def tStep (T : Table) (s : St) : Option St :=
  match s.t with
  | .start =>
    if s.script = .startFault then some { s with t := .done }   -- nothing written: the thread is gone, the record is as it was
    else
    match req T s .running with
    | some r => some { s with sr := r, t := .body }
    | none => some { s with t := .done }                    -- status error swallowed by `run`
  | .body => some { s with t := if s.script = .waitChild then .waiting else if s.script = .pause then .done else .store }
  | .store => some { s with t := .publish }                  -- set_result / set_exception / increment retries
  | .publish =>
    let target : Status := match s.script with | .ok => .success | .fail => .failed | _ => .retry
    match req T s target with
    | some r => some { s with sr := r, t := if s.script = .retry then .push else .done }
    | none => some { s with t := .done }
  | .push => some { s with queued := s.queued + 1, t := .done }
  | .waiting => none                                          -- the child is never final: the loop spins for ever
  | .done => none

/-- one step of the stop procedure.  `deadBranch = true` is the code: an ENDED thread is joined and its invocation still goes
    through kill-and-reroute (ignored when it is final).  `deadBranch = false` is the variant that prunes ended threads first, the
    way the loop's slot reclaim does, and only handles the alive ones. -/
def kStepV (deadBranch : Bool) (T : Table) (s : St) : Option St :=
  match s.k with
  | .check => some { s with k := if s.t = .done then (if deadBranch then .joinDead else .done) else .kill }
  | .kill =>
    match req T s .killed with
    | some r => some { s with sr := r, k := .reroute }
    | none => some { s with k := .join }                     -- status error caught in `_kill_and_reroute`
  | .reroute =>
    match req T s .rerouted with
    | some r => some { s with sr := r, k := .push }
    | none => some { s with k := .join }
  | .push => some { s with queued := s.queued + 1, k := .join }
  | .join => if s.t = .done then some { s with k := .done } else none     -- `thread.join()` blocks
  | .joinDead => some { s with k := .killDead }
  | .killDead =>
    match req T s .killed with
    | some r => some { s with sr := r, k := .rerouteDead }
    | none => some { s with k := .done }
  | .rerouteDead =>
    match req T s .rerouted with
    | some r => some { s with sr := r, k := .pushDead }
    | none => some { s with k := .done }
  | .pushDead => some { s with queued := s.queued + 1, k := .done }
  | .done => none

def kStep (T : Table) (s : St) : Option St := kStepV true T s

def successorsV (d : Bool) (T : Table) (s : St) : List St :=
  (match tStep T s with | some x => [x] | none => []) ++ (match kStepV d T s with | some x => [x] | none => [])

/-- all states reachable within `fuel` steps from `s` in which no step is enabled (terminal or stuck) -/
def terminalsV (d : Bool) (T : Table) : Nat → St → List St
  | 0, s => if (successorsV d T s).isEmpty then [s] else []
  | fuel + 1, s =>
    let succ := successorsV d T s
    if succ.isEmpty then [s] else succ.flatMap (terminalsV d T fuel)

def successors (T : Table) (s : St) : List St := successorsV true T s
def terminals (T : Table) (fuel : Nat) (s : St) : List St := terminalsV true T fuel s

/-- the postcondition of the property for one invocation: final, or available + queued + nobody's -/
def post (T : Table) (s : St) : Bool :=
  (T (some s.sr.status)).isFinal ||
  ((T (some s.sr.status)).available && decide (0 < s.queued) && s.sr.owner.isNone)

/-- `run()` returned for this invocation: the stop procedure finished (which includes the join) -/
def stopped (s : St) : Bool := s.k = .done

end Pynenc.Stop
