import PynencModel.Model.Basic
import PynencModel.Gen.ReservedKeys
/-
  L1 model of pynenc/client_data_store/base_client_data_store.py (`serialize`, `resolve`, `_maybe_store`,
  `_resolve_reference`, `_cache_deserialized`, `_generate_key`, `serialize_arguments`, `purge`).
  The two backends (`MemClientDataStore._storage`, SQLite `<prefix>_data` with INSERT OR REPLACE) are one
  key → text map here.  The serializer (`ser`/`deser`), `isinstance(obj, str)` (`asStr`) and the content hash `H`
  (SHA-256 of the utf-8 bytes, hex) are parameters.  Core Lean only.
-/
namespace Pynenc.CDS

abbrev Str := List Char

/-- `ReservedKeys.CLIENT_DATA` (regenerated from the source on every run) -/
def refPrefix : Str := Gen.Reserved.clientData.toList

def startsWith : Str → Str → Bool
  | [], _ => true
  | _ :: _, [] => false
  | p :: ps, c :: cs => if p = c then startsWith ps cs else false

/-- `is_reference`: `value.startswith(ReservedKeys.CLIENT_DATA.value)` -/
def isRef (s : Str) : Bool := startsWith refPrefix s

/-- `_generate_key` -/
def genKey (H : Str → Str) (content : Str) : Str := refPrefix ++ (':' :: H content)

structure Conf where
  disabled : Bool := false      -- disable_client_data_store
  minSize : Nat := 1024         -- min_size_to_cache
  maxSize : Nat := 0            -- max_size_to_cache (0 = no limit)
  cacheSize : Nat := 1024       -- local_cache_size
  deriving Repr

structure Store (V : Type) where
  ext : AMap Str Str := []      -- backend storage: reference key → serialized text
  lru : AMap Str V := []        -- `_deserialized_cache` (OrderedDict, oldest first)

inductive Res (V : Type) where
  | ok (v : V)
  | keyError
  | deserError
  deriving DecidableEq, Repr

section
variable {V : Type}

/-- `OrderedDict.move_to_end(key)` -/
def moveToEnd (l : AMap Str V) (k : Str) : AMap Str V :=
  match AMap.get? l k with
  | some v => AMap.erase l k ++ [(k, v)]
  | none => l

/-- `_cache_deserialized`: evict the oldest entry when at capacity, then `cache[key] = obj`.
    `none` = `popitem` on an empty dictionary raised `KeyError` (capacity 0). -/
def cachePut (c : Conf) (l : AMap Str V) (k : Str) (o : V) : Option (AMap Str V) :=
  if l.length ≥ c.cacheSize then
    match l with
    | [] => none
    | _ :: rest => some (AMap.set rest k o)
  else some (AMap.set l k o)

/-- should the serialized text go to external storage (`_maybe_store`) -/
def external (c : Conf) (size : Nat) : Bool :=
  if size < c.minSize then false
  else if c.maxSize > 0 && size > c.maxSize then false
  else true

/-- `_maybe_store` -/
def maybeStore (H : Str → Str) (c : Conf) (ext : AMap Str Str) (s : Str) : AMap Str Str × Str :=
  if external c s.length then (AMap.set ext (genKey H s) s, genKey H s) else (ext, s)

/-- `serialize(obj, disable_cache)`; the result is `none` when `_cache_deserialized` raised -/
def serialize (ser : V → Str) (asStr : V → Option Str) (H : Str → Str) (c : Conf) (st : Store V) (o : V)
    (disable : Bool) : Store V × Option Str :=
  if c.disabled || disable then (st, some (ser o))
  else
    match (asStr o).filter isRef with
    | some s => (st, some s)
    | none =>
      let (ext', key) := maybeStore H c st.ext (ser o)
      if isRef key then
        match cachePut c st.lru key o with
        | some l => ({ ext := ext', lru := l }, some key)
        | none => ({ st with ext := ext' }, none)
      else ({ st with ext := ext' }, some key)

/-- `serialize(obj)` while the backend write fails (a locked database, a dropped connection): when the value has to be
    externalised the error propagates and nothing changes - the value is NOT handed back inline instead, its representation
    (and with it the call identity) does not depend on a transient fault; `none` = the storage error was raised -/
def serializeFault (ser : V → Str) (asStr : V → Option Str) (_H : Str → Str) (c : Conf) (st : Store V) (o : V) :
    Store V × Option (Option Str) :=
  if c.disabled then (st, some (some (ser o)))
  else
    match (asStr o).filter isRef with
    | some s => (st, some (some s))
    | none => if external c (ser o).length then (st, none) else (st, some (some (ser o)))

/-- `resolve(data)` (= `deserialize(data)`) -/
def resolve (deser : Str → Option V) (c : Conf) (st : Store V) (data : Str) : Store V × Res V :=
  if isRef data then
    match AMap.get? st.lru data with
    | some o => ({ st with lru := moveToEnd st.lru data }, .ok o)
    | none =>
      match AMap.get? st.ext data with
      | none => (st, .keyError)
      | some s =>
        match deser s with
        | none => (st, .deserError)
        | some o =>
          match cachePut c st.lru data o with
          | some l => ({ st with lru := l }, .ok o)
          | none => (st, .keyError)
  else
    match deser data with
    | some o => (st, .ok o)
    | none => (st, .deserError)

/-- `purge()` -/
def purge (_ : Store V) : Store V := {}

/-- another process sharing the backend externalises a value -/
def foreignStore (ser : V → Str) (H : Str → Str) (st : Store V) (o : V) : Store V :=
  { st with ext := AMap.set st.ext (genKey H (ser o)) (ser o) }

/-- another process sharing the backend purges it (`app.purge()` elsewhere): the backend is emptied, this
    process keeps its `_deserialized_cache` -/
def foreignPurge (st : Store V) : Store V := { st with ext := [] }

/-- `resolve(data)` by a process that has never seen the key (empty LRU) on the same backend; result only -/
def freshResolve (deser : Str → Option V) (c : Conf) (st : Store V) (data : Str) : Res V :=
  (resolve deser c { ext := st.ext, lru := [] } data).2

/-- `serialize_arguments`: is external storage disabled for this argument name -/
def disableFor (disableCacheArgs : List Str) (key : Str) : Bool :=
  disableCacheArgs.contains "*".toList || disableCacheArgs.contains key

/-- operations of one process on its store, and of other processes on the shared backend -/
inductive Op (V : Type) where
  | serialize (o : V) (disable : Bool)
  | resolve (data : Str)
  | foreign (o : V)

def step (ser : V → Str) (deser : Str → Option V) (asStr : V → Option Str) (H : Str → Str) (c : Conf)
    (st : Store V) : Op V → Store V
  | .serialize o d => (serialize ser asStr H c st o d).1
  | .resolve data => (resolve deser c st data).1
  | .foreign o => foreignStore ser H st o

def run (ser : V → Str) (deser : Str → Option V) (asStr : V → Option Str) (H : Str → Str) (c : Conf)
    (st : Store V) (ops : List (Op V)) : Store V :=
  ops.foldl (step ser deser asStr H c) st

end

/-! ### objects as aliases: what the LRU holds when values are mutable
  `caller a` is the object the client passed (its content is whatever the heap says *now*), `fresh s` is an
  object produced by deserialising the text `s`. -/
inductive Obj where
  | caller (addr : Nat)
  | fresh (content : Str)
  deriving DecidableEq, Repr

def contentOf (heap : Nat → Str) : Obj → Str
  | .caller a => heap a
  | .fresh s => s

end Pynenc.CDS
