import PynencModel.Model.Status
/-
  L2 model used by C10: status changes and their recorded history.
  `set_invocation_status` / `register_new_invocations` (base_orchestrator.py): the atomic transition
  returns the new record; THEN the same actor calls `add_history`, which builds the entry and hands it to a
  background writer thread (base_state_backend.py) that may run arbitrarily late.
  All lists are global (entries carry their invocation id); per-invocation views are filters.
-/
namespace Pynenc.History
open Pynenc

/-- one status change / one history entry: invocation, new status, requesting runner, time of the change -/
structure Entry where
  inv    : String
  status : Status
  runner : String
  time   : Int
  deriving DecidableEq, Repr

structure Sys where
  /-- ghost: the accepted atomic transitions, in the order they happened -/
  log    : List Entry := []
  /-- transitions done whose `add_history` call has not happened yet (held by the acting thread) -/
  held   : List Entry := []
  /-- entries handed to writer threads that have not run yet -/
  queue  : List Entry := []
  /-- what the state backend has stored -/
  stored : List Entry := []

inductive Step : Sys → Sys → Prop where
  /-- an atomic transition is accepted (by any actor) -/
  | transition (s : Sys) (e : Entry) : Step s { s with log := s.log ++ [e], held := e :: s.held }
  /-- the acting thread reaches `add_history`: the entry is created and a writer thread is started -/
  | enqueue (s : Sys) (e : Entry) : e ∈ s.held → Step s { s with held := s.held.erase e, queue := e :: s.queue }
  /-- some writer thread runs (any of them, at any later time) -/
  | write (s : Sys) (e : Entry) : e ∈ s.queue → Step s { s with queue := s.queue.erase e, stored := e :: s.stored }

inductive Reach (s0 : Sys) : Sys → Prop where
  | refl : Reach s0 s0
  | step (s s' : Sys) : Reach s0 s → Step s s' → Reach s0 s'

/-- everything handed over and written: `wait_for_all_async_operations` returned and no thread is between
    its transition and its `add_history` -/
def Flushed (s : Sys) : Prop := s.held = [] ∧ s.queue = []

def ofInv (i : String) (l : List Entry) : List Entry := l.filter (·.inv = i)

end Pynenc.History
