import PynencModel.Model.Basic
/-
  Thread runner executing a finite tree of nested calls — C09, part B.

  What is modelled (pynenc/runner/thread_runner.py, base_orchestrator.get_invocations_to_run,
  dist_invocation.result / DistributedInvocationGroup.results):

  * one `ThreadRunner` with `slots = max_parallel_slots`; `threads` = `self.threads`,
    `waiting` = `self.waiting_invocation_ids` (a thread that has called `_waiting_for_results` is no
    longer counted against the slots, see `_reclaim_available_slots`; it is never removed from the
    set until it ends);
  * a poll (`runner_loop_iteration`) asks for `slots - |threads not waiting|` invocations:
    *blocking invocations first* (registered, awaited by somebody, not waiting themselves — the set
    characterised in part A; WHICH of them and in what order is left open), then the broker queue,
    where a popped id whose status is not available for run is dropped;
  * a task body is a list of actions: `launch cs` (register and route the children `cs`; a single
    call is `launch [c]`, `parallelize` is `launch cs`) and `wait cs` (`inv.result` is `wait [c]`,
    `group.results` is `wait cs`): check for final statuses, declare the wait to the orchestrator
    for the children that are not final (a child that became final in between may still be
    declared: `D`), then loop { all final → go on | `runner.waiting_for_results` → waiting set };
  * the end of a body sets the final status, which releases the waiters (edges into the node go),
    and the thread ends (its join in the next `_reclaim_available_slots` is merged into this step).

  The wait graph is kept as the set of standing edges (part A proves both backends report exactly
  the blocking set of that graph along every lifecycle history).  Core Lean only.
-/
namespace Pynenc.TR

inductive Act where
  | launch (cs : List Nat)
  | wait (cs : List Nat)
  deriving Repr, DecidableEq

/-- a program: the body of every node id, and the root that the client routed -/
structure Prog where
  body : Nat → List Act
  root : Nat
  /-- every node id is below `size` (the tree is finite) -/
  size : Nat

inductive NState where
  | absent                 -- not created yet
  | registered             -- REGISTERED (runnable), not claimed
  | run (pc : Nat)         -- claimed (PENDING/RUNNING), thread about to execute action `pc`
  | declared (pc : Nat)    -- wait of action `pc` declared to the orchestrator
  | spin (pc : Nat)        -- in the runner's waiting set, polling the children's statuses
  | final
  deriving Repr, DecidableEq

def NState.live : NState → Bool
  | .run _ | .declared _ | .spin _ => true
  | _ => false

structure Sys where
  node    : Nat → NState
  queue   : List Nat
  edges   : List (Nat × Nat)
  threads : List Nat
  waiting : List Nat

structure Cfg where
  slots : Nat
  /-- `false` = the hand-made mutant: waiting threads keep occupying their slot -/
  freeWaiting : Bool := true

def upd (f : Nat → NState) (i : Nat) (v : NState) : Nat → NState := fun j => if j = i then v else f j

def updMany (f : Nat → NState) (cs : List Nat) (v : NState) : Nat → NState :=
  fun j => if j ∈ cs then v else f j

def init (P : Prog) : Sys :=
  { node := upd (fun _ => .absent) P.root .registered, queue := [P.root], edges := [],
    threads := [], waiting := [] }

def allFinal (s : Sys) (cs : List Nat) : Bool := cs.all fun c => s.node c == .final

/-- `_reclaim_available_slots` -/
def avail (cfg : Cfg) (s : Sys) : Nat :=
  cfg.slots - (s.threads.filter fun i => !(cfg.freeWaiting && s.waiting.contains i)).length

/-- reported by `get_blocking_invocations`: awaited, not waiting, runnable -/
def blocking (s : Sys) (x : Nat) : Bool :=
  s.node x == .registered && (s.edges.any fun e => e.2 == x) && !(s.edges.any fun e => e.1 == x)

/-- PENDING, thread started -/
def claim (s : Sys) (x : Nat) : Sys :=
  { s with node := upd s.node x (.run 0), threads := s.threads ++ [x] }

/-- `get_additional_invocations_to_run`: pop while something is missing; claim what is runnable,
    drop the rest -/
def pops (missing : Nat) (s : Sys) : List Nat → Sys
  | [] => { s with queue := [] }
  | q :: rest =>
    if missing = 0 then { s with queue := q :: rest }
    else if s.node q = .registered then pops (missing - 1) (claim s q) rest
    else pops missing s rest

/-- one `runner_loop_iteration` that claims the blocking invocations `bs` first -/
def doPoll (cfg : Cfg) (s : Sys) (bs : List Nat) : Sys :=
  let s1 := bs.foldl claim s
  pops (avail cfg s - bs.length) s1 s1.queue

def doLaunch (s : Sys) (i pc : Nat) (cs : List Nat) : Sys :=
  { s with node := updMany (upd s.node i (.run (pc + 1))) cs .registered, queue := s.queue ++ cs }

def doDeclare (s : Sys) (i pc : Nat) (D : List Nat) : Sys :=
  { s with node := upd s.node i (.declared pc), edges := s.edges ++ D.map (fun c => (i, c)) }

def doFinish (s : Sys) (i : Nat) : Sys :=
  { s with node := upd s.node i .final, edges := s.edges.filter (fun e => e.2 ≠ i),
           threads := s.threads.filter (· ≠ i), waiting := s.waiting.filter (· ≠ i) }

/-- the steps that change something (polling that claims nothing and status polling of a waiting
    thread are stutters, not steps) -/
inductive Step (P : Prog) (cfg : Cfg) : Sys → Sys → Prop where
  | poll (s : Sys) (bs : List Nat)
      (hb : ∀ x ∈ bs, blocking s x = true) (hnd : bs.Nodup) (hlen : bs.length ≤ avail cfg s)
      (hfirst : bs = [] → avail cfg s = 0 ∨ ∀ x, blocking s x = false)
      (hclaims : (doPoll cfg s bs).threads ≠ s.threads) :
      Step P cfg s (doPoll cfg s bs)
  | launch (s : Sys) (i pc : Nat) (cs : List Nat)
      (hn : s.node i = .run pc) (ha : (P.body i)[pc]? = some (Act.launch cs)) :
      Step P cfg s (doLaunch s i pc cs)
  | waitPass (s : Sys) (i pc : Nat) (cs : List Nat)
      (hn : s.node i = .run pc) (ha : (P.body i)[pc]? = some (Act.wait cs)) (hf : allFinal s cs = true) :
      Step P cfg s { s with node := upd s.node i (.run (pc + 1)) }
  | declare (s : Sys) (i pc : Nat) (cs D : List Nat)
      (hn : s.node i = .run pc) (ha : (P.body i)[pc]? = some (Act.wait cs))
      (hD : ∀ c ∈ D, c ∈ cs) (hDn : ∀ c ∈ cs, s.node c ≠ .final → c ∈ D) :
      Step P cfg s (doDeclare s i pc D)
  | declPass (s : Sys) (i pc : Nat) (cs : List Nat)
      (hn : s.node i = .declared pc) (ha : (P.body i)[pc]? = some (Act.wait cs)) (hf : allFinal s cs = true) :
      Step P cfg s { s with node := upd s.node i (.run (pc + 1)) }
  | toSpin (s : Sys) (i pc : Nat)
      (hn : s.node i = .declared pc) :
      Step P cfg s { s with node := upd s.node i (.spin pc),
                            waiting := if s.waiting.contains i then s.waiting else s.waiting ++ [i] }
  | spinPass (s : Sys) (i pc : Nat) (cs : List Nat)
      (hn : s.node i = .spin pc) (ha : (P.body i)[pc]? = some (Act.wait cs)) (hf : allFinal s cs = true) :
      Step P cfg s { s with node := upd s.node i (.run (pc + 1)) }
  | finish (s : Sys) (i pc : Nat)
      (hn : s.node i = .run pc) (ha : (P.body i)[pc]? = none) :
      Step P cfg s (doFinish s i)

inductive Reach (P : Prog) (cfg : Cfg) : Sys → Prop where
  | init : Reach P cfg (init P)
  | step (s s' : Sys) : Reach P cfg s → Step P cfg s s' → Reach P cfg s'

/-- a finite tree of nested calls: children have larger ids than their parent, every id is launched
    from exactly one place, the root from nowhere, and a body only waits for children it has
    launched earlier -/
structure WF (P : Prog) : Prop where
  bounded : ∀ (i pc : Nat) (cs : List Nat), (P.body i)[pc]? = some (Act.launch cs) → ∀ c ∈ cs, c < P.size
  down : ∀ (i pc : Nat) (cs : List Nat), (P.body i)[pc]? = some (Act.launch cs) → ∀ c ∈ cs, i < c
  uniq : ∀ (i pc : Nat) (cs : List Nat) (i' pc' : Nat) (cs' : List Nat), (P.body i)[pc]? = some (Act.launch cs) →
    (P.body i')[pc']? = some (Act.launch cs') → ∀ c, c ∈ cs → c ∈ cs' → i = i' ∧ pc = pc'
  rootFree : ∀ (i pc : Nat) (cs : List Nat), (P.body i)[pc]? = some (Act.launch cs) → P.root ∉ cs
  rootIn : P.root < P.size
  waitsOwn : ∀ (i pc : Nat) (cs : List Nat), (P.body i)[pc]? = some (Act.wait cs) → ∀ c ∈ cs,
    ∃ pc' cs', pc' < pc ∧ (P.body i)[pc']? = some (Act.launch cs') ∧ c ∈ cs'

end Pynenc.TR
