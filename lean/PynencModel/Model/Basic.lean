/-
  Small association-list finite maps used by the executable models (core Lean only).
  Invariants (no duplicate keys) are separate theorems in `Proofs/`, never subtypes.
-/
namespace Pynenc

instance instDecEqExcept {ε α : Type} [DecidableEq ε] [DecidableEq α] : DecidableEq (Except ε α) := fun a b =>
  match a, b with
  | .ok x, .ok y => if h : x = y then isTrue (by rw [h]) else isFalse (fun e => h (by injection e))
  | .error x, .error y => if h : x = y then isTrue (by rw [h]) else isFalse (fun e => h (by injection e))
  | .ok _, .error _ => isFalse (fun e => by cases e)
  | .error _, .ok _ => isFalse (fun e => by cases e)

/-- insertion-ordered finite map -/
abbrev AMap (α β : Type) := List (α × β)

namespace AMap
variable {α β : Type} [DecidableEq α]

def get? (m : AMap α β) (k : α) : Option β :=
  match m with
  | [] => none
  | (k', v) :: rest => if k' = k then some v else get? rest k

def has (m : AMap α β) (k : α) : Bool := (get? m k).isSome

/-- update in place when present (keeps position), append otherwise -/
def set (m : AMap α β) (k : α) (v : β) : AMap α β :=
  match m with
  | [] => [(k, v)]
  | (k', v') :: rest => if k' = k then (k, v) :: rest else (k', v') :: set rest k v

def erase (m : AMap α β) (k : α) : AMap α β := m.filter (fun p => p.1 ≠ k)

def keys (m : AMap α β) : List α := m.map (·.1)

@[simp] theorem get?_nil (k : α) : get? ([] : AMap α β) k = none := rfl

theorem get?_set_self (m : AMap α β) (k : α) (v : β) : get? (set m k v) k = some v := by
  induction m with
  | nil => simp [set, get?]
  | cons p rest ih =>
    obtain ⟨k', v'⟩ := p
    by_cases h : k' = k
    · simp [set, get?, h]
    · simp [set, get?, h, ih]

theorem get?_set_other (m : AMap α β) (k k2 : α) (v : β) (h : k2 ≠ k) :
    get? (set m k v) k2 = get? m k2 := by
  induction m with
  | nil =>
    have : ¬ k = k2 := fun e => h e.symm
    simp [set, get?, this]
  | cons p rest ih =>
    obtain ⟨k', v'⟩ := p
    by_cases h1 : k' = k
    · subst h1
      have : ¬ k' = k2 := fun e => h e.symm
      simp [set, get?, this]
    · by_cases h2 : k' = k2
      · subst h2
        simp [set, get?, h]
      · simp [set, get?, h1, h2, ih]

end AMap

/-- list membership as Bool for DecidableEq types -/
def memb {α : Type} [DecidableEq α] (x : α) (l : List α) : Bool := l.contains x

/-- remove duplicates keeping first occurrences -/
def dedup {α : Type} [DecidableEq α] : List α → List α
  | [] => []
  | x :: xs => x :: (dedup xs).filter (· ≠ x)

/-- insertion sort (stable) by a key into Int, ascending; used only to canonicalise outputs -/
def insertBy {α : Type} (le : α → α → Bool) (x : α) : List α → List α
  | [] => [x]
  | y :: ys => if le x y then x :: y :: ys else y :: insertBy le x ys

def sortBy {α : Type} (le : α → α → Bool) (l : List α) : List α := l.foldr (insertBy le) []

end Pynenc

namespace Pynenc.AMap
variable {α β : Type} [DecidableEq α]

/-- no key occurs twice -/
def NodupKeys (m : AMap α β) : Prop := (m.map (·.1)).Nodup

theorem mem_of_get? (m : AMap α β) (k : α) (v : β) (h : get? m k = some v) : (k, v) ∈ m := by
  induction m with
  | nil => simp [get?] at h
  | cons p rest ih =>
    obtain ⟨k', v'⟩ := p
    by_cases hk : k' = k
    · subst hk; simp [get?] at h; subst h; simp
    · simp [get?, hk] at h; exact List.mem_cons_of_mem _ (ih h)

theorem get?_of_mem (m : AMap α β) (hn : NodupKeys m) (k : α) (v : β) (h : (k, v) ∈ m) : get? m k = some v := by
  induction m with
  | nil => simp at h
  | cons p rest ih =>
    obtain ⟨k', v'⟩ := p
    simp only [NodupKeys, List.map_cons, List.nodup_cons] at hn
    rcases List.mem_cons.1 h with heq | hmem
    · injection heq with h1 h2; subst h1; subst h2; simp [get?]
    · by_cases hk : k' = k
      · subst hk
        exact absurd (List.mem_map_of_mem (f := (·.1)) hmem) hn.1
      · simp [get?, hk]; exact ih hn.2 hmem

theorem keys_set (m : AMap α β) (k : α) (v : β) :
    (set m k v).map (·.1) = if has m k then m.map (·.1) else m.map (·.1) ++ [k] := by
  induction m with
  | nil => simp [set, has, get?]
  | cons p rest ih =>
    obtain ⟨k', v'⟩ := p
    by_cases hk : k' = k
    · subst hk; simp [set, has, get?]
    · simp only [set, hk, if_false, List.map_cons, ih, has, get?]
      split <;> simp_all

theorem nodupKeys_set (m : AMap α β) (hn : NodupKeys m) (k : α) (v : β) : NodupKeys (set m k v) := by
  unfold NodupKeys at *
  rw [keys_set]
  split
  · exact hn
  · rename_i hh
    rw [List.nodup_append]
    refine ⟨hn, by simp, ?_⟩
    intro a ha b hb
    simp only [List.mem_singleton] at hb
    subst hb
    intro heq; subst heq
    apply hh
    obtain ⟨⟨k0, v0⟩, hm, rfl⟩ := List.mem_map.1 ha
    have : get? m k0 ≠ none := by
      clear hn hh ha
      induction m with
      | nil => simp at hm
      | cons p rest ih =>
        obtain ⟨k', v'⟩ := p
        by_cases hk : k' = k0
        · simp [get?, hk]
        · rcases List.mem_cons.1 hm with h | h
          · injection h with h1; exact absurd h1.symm hk
          · simp [get?, hk]; exact ih h
    simp only [has]
    cases hg : get? m k0 with
    | none => exact absurd hg this
    | some _ => rfl

end Pynenc.AMap
