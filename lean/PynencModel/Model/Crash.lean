import PynencModel.Model.Status
/-
  L2 model used by C03: what is left of ONE invocation when the actor executing a lifecycle operation dies
  after a prefix of that operation's backend effects.  Effects are the (kind, argument) pairs traced from the
  real code (Gen/Programs.lean).  The invocation's recoverability only depends on its status and on how many
  queue messages carry its id.
-/
namespace Pynenc.Crash
open Pynenc

structure InvState where
  status : Option Status      -- none: not registered yet
  queued : Nat
  deriving DecidableEq, Repr

/-- one traced effect applied to the invocation -/
def applyEffect (s : InvState) (e : String × String) : InvState :=
  if e.1 == "register" then { s with status := some .registered }
  else if e.1 == "transition" then (match Status.ofName? e.2 with | some st => { s with status := some st } | none => s)
  else if e.1 == "push" then { s with queued := s.queued + 1 }
  else if e.1 == "pop" then { s with queued := s.queued - 1 }
  else s

/-- states after each prefix of the program (including the empty and the full prefix) -/
def prefixStates (s : InvState) : List (String × String) → List InvState
  | [] => [s]
  | e :: rest => s :: prefixStates (applyEffect s e) rest

/-- Recoverable without any live holder (the property's second sentence): final, or queued in an available
    status, or PENDING / RUNNING (held by a runner whose death the recovery scans notice) -/
def protectedState (T : Table) (s : InvState) : Bool :=
  match s.status with
  | none => false
  | some st => (T (some st)).isFinal || ((T (some st)).available && decide (0 < s.queued)) || st == .pending || st == .running

/-- the crash-point table of a program: is the invocation still recoverable if the actor dies right after the
    k-th effect (k = 0 … length)? -/
def crashTable (T : Table) (s : InvState) (prog : List (String × String)) : List Bool :=
  (prefixStates s prog).map (protectedState T)

/-- only the effects that matter for recoverability (status writes, queue pushes and pops, registration) -/
def relevant (prog : List (String × String)) : List (String × String) :=
  prog.filter fun e => e.1 == "register" || e.1 == "transition" || e.1 == "push" || e.1 == "pop"

/-! ### recovery drives a protected invocation to a final status -/

/-- the steps recovery services and a surviving runner take on an invocation nobody holds any more -/
inductive Drive (T : Table) : InvState → InvState → Prop where
  /-- a live runner pops a message and claims (available status, edge to PENDING) -/
  | claim (st : Status) (q : Nat) : (T (some st)).available = true → (T (some st)).allowed.contains .pending = true →
      Drive T ⟨some st, q + 1⟩ ⟨some .pending, q⟩
  | start (q : Nat) : Drive T ⟨some .pending, q⟩ ⟨some .running, q⟩
  | succeed (q : Nat) : Drive T ⟨some .running, q⟩ ⟨some .success, q⟩
  /-- pending recovery of a stale PENDING invocation: PENDING_RECOVERY, REROUTED, push -/
  | recoverPending (q : Nat) : Drive T ⟨some .pending, q⟩ ⟨some .rerouted, q + 1⟩
  /-- running recovery of a RUNNING invocation of a dead runner -/
  | recoverRunning (q : Nat) : Drive T ⟨some .running, q⟩ ⟨some .rerouted, q + 1⟩

inductive DriveStar (T : Table) : InvState → InvState → Prop where
  | refl (s : InvState) : DriveStar T s s
  | step (a b c : InvState) : Drive T a b → DriveStar T b c → DriveStar T a c

end Pynenc.Crash
