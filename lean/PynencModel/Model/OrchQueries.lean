import PynencModel.Model.Orch
/-
  L1 model of the orchestrator queries that `Model/Orch.lean` does not cover (C16):
  `get_task_invocation_ids`, `get_call_invocation_ids`, `get_invocation_ids_paginated`,
  `count_invocations`, `filter_by_status` / `filter_final`, `set_up_invocation_auto_purge` + `auto_purge`,
  `record_atomic_service_execution` (seen through `get_active_runners`), `purge`, and the two
  family-specific algorithms behind them:

  * `MemOrchestrator.filter_by_key_arguments` (`memKeyFilter`: one indexed id set per key/value pair,
    early exit on an empty set, intersection) against the SQLite JOIN per pair (`Orch.matchesKey`);
  * the Python slice `sorted_ids[offset : offset + limit]` (`pySlice`) against `LIMIT ? OFFSET ?`.

  Where the two families differ on inputs the base-class contract does not mention (unknown ids,
  negative limits) the reference follows the SQL reading "an id nobody knows matches nothing and
  updating it touches nothing"; the in-memory reading is modelled next to it (`mem…`) so that the
  difference is a theorem with a witness and not a silent choice.
  Core Lean only.
-/
namespace Pynenc
namespace Orch

/-! ### ids by task / call -/

/-- `get_task_invocation_ids(task_id)` (a set: order unspecified) -/
def taskIds (o : Orch) (task : String) : List String :=
  (o.info.filter fun p => decide (p.2.task = task)).map (·.1)

/-- `get_call_invocation_ids(call_id)` -/
def callIds (o : Orch) (call : String) : List String :=
  (o.info.filter fun p => decide (p.2.call = call)).map (·.1)

/-! ### `MemOrchestrator.filter_by_key_arguments` -/

/-- `self.args_index.get(ArgPair(k, v), set())` -/
def idsWithPair (o : Orch) (k v : String) : List String :=
  dedup ((o.argIdx.filter fun r => decide (r.2.1 = k) && decide (r.2.2 = v)).map (·.1))

/-- the `for key, value in key_arguments.items()` loop: one candidate set per pair, `none` = the early
    `return set()` on the first empty candidate set -/
def collectSets (o : Orch) : List (String × String) → Option (List (List String))
  | [] => some []
  | (k, v) :: rest =>
    let m := o.idsWithPair k v
    if m.isEmpty then none else (collectSets o rest).map (m :: ·)

/-- `result.intersection_update(candidate_set)` for each remaining set, `break` when empty -/
def interAll : List String → List (List String) → List String
  | r, [] => r
  | r, c :: cs =>
    let r' := r.filter (c.contains ·)
    if r'.isEmpty then [] else interAll r' cs

/-- `MemOrchestrator.filter_by_key_arguments(key_arguments)` -/
def memKeyFilter (o : Orch) (key : List (String × String)) : List String :=
  if key.isEmpty then []
  else match collectSets o key with
    | none => []
    | some [] => []
    | some (c :: cs) => interAll c cs

/-- `MemOrchestrator.get_existing_invocations`: `task_matches ∩ key_matches ∩ status_matches`, each
    filter skipped when its argument is falsy (`{}` / `[]` / `None`) -/
def existingMem (o : Orch) (task : String) (key : List (String × String)) (statuses : List Status) : List String :=
  (o.taskIds task).filter fun id =>
    (key.isEmpty || (o.memKeyFilter key).contains id) &&
    (statuses.isEmpty || (match o.statusOf id with | some s => statuses.contains s | none => false))

/-! ### pagination and counting -/

/-- the candidate set of `get_invocation_ids_paginated` / `count_invocations`: optional task filter
    (`if task_id:`), optional status filter (`if statuses:`) -/
def cands (o : Orch) (task : Option String) (statuses : List Status) : List String :=
  (o.info.filter fun p =>
    (match task with | none => true | some t => decide (p.2.task = t)) &&
    (statuses.isEmpty || (match o.statusOf p.1 with | some s => statuses.contains s | none => false))).map (·.1)

/-- status timestamp used as the sort key (`ORDER BY status_timestamp DESC` / `sorted(..., reverse=True)`) -/
def tsOf (o : Orch) (id : String) : Int := ((o.get id).map (·.ts)).getD 0

/-- newest first; the relative order of equal timestamps is whatever the sort does (unspecified in
    both families — the correspondence compares per timestamp class) -/
def sortDesc (o : Orch) (l : List String) : List String :=
  sortBy (fun a b => decide (o.tsOf a ≥ o.tsOf b)) l

/-- `count_invocations(task_id, statuses)` -/
def count (o : Orch) (task : Option String) (statuses : List Status) : Nat := (o.cands task statuses).length

/-- Python index normalisation of a slice bound for a list of length `n` -/
def pyBound (n : Nat) (i : Int) : Nat :=
  if i < 0 then (i + n).toNat else min i.toNat n

/-- Python `l[a:b]` (step 1) -/
def pySlice {α : Type} (l : List α) (a b : Int) : List α :=
  let lo := pyBound l.length a
  let hi := pyBound l.length b
  (l.take hi).drop lo

/-- SQLite `LIMIT lim OFFSET off`: a negative LIMIT means no limit, a negative OFFSET means 0 -/
def sqlLimitOffset {α : Type} (l : List α) (lim off : Int) : List α :=
  let l' := l.drop off.toNat
  if lim < 0 then l' else l'.take lim.toNat

/-- `MemOrchestrator.get_invocation_ids_paginated`: `offset, limit = max(offset, 0), max(limit, 0)` first -/
def memPage (o : Orch) (task : Option String) (statuses : List Status) (limit offset : Int) : List String :=
  pySlice (o.sortDesc (o.cands task statuses)) (max offset 0) (max offset 0 + max limit 0)

/-- `SQLiteOrchestrator.get_invocation_ids_paginated`: binds `max(limit, 0)`, `max(offset, 0)` -/
def sqlPage (o : Orch) (task : Option String) (statuses : List Status) (limit offset : Int) : List String :=
  sqlLimitOffset (o.sortDesc (o.cands task statuses)) (max limit 0) (max offset 0)

/-- the documented reading (`LIMIT/OFFSET semantics`, limit = maximum number of results, offset =
    number skipped): `take limit ∘ drop offset ∘ sort by timestamp desc` -/
def paginated (o : Orch) (task : Option String) (statuses : List Status) (limit offset : Nat) : List String :=
  ((o.sortDesc (o.cands task statuses)).drop offset).take limit

/-! ### filter_by_status -/

/-- `SQLiteOrchestrator.filter_by_status`: `WHERE invocation_id IN (…) AND status IN (…)` — a set of
    known ids; the reference keeps the input order and duplicates out of the comparison (sets) -/
def filterByStatus (o : Orch) (ids : List String) (filter : List Status) : List String :=
  ids.filter fun id => match o.statusOf id with | some s => filter.contains s | none => false

/-- `MemOrchestrator.filter_by_status`: `get_invocation_status(id)` per id — raises `KeyError` on the
    first id the orchestrator does not know -/
def memFilterByStatus (o : Orch) : List String → List Status → Except Unit (List String)
  | [], _ => .ok []
  | id :: rest, filter =>
    match o.statusOf id with
    | none => .error ()
    | some s =>
      match memFilterByStatus o rest filter with
      | .error e => .error e
      | .ok r => .ok (if filter.contains s then id :: r else r)

/-! ### retries, reference reading for unknown ids -/

/-- `increment_invocation_retries`: SQLite `UPDATE … WHERE invocation_id = ?` touches nothing for an id
    the orchestrator does not know (`Orch.incrRetries` is the in-memory reading, which creates a counter) -/
def incrRetriesKnown (o : Orch) (id : String) : Orch :=
  if o.recs.has id then o.incrRetries id else o

/-! ### purge / clean-up -/

/-- everything `clean_up_invocation` / the two `DELETE`s of `auto_purge` remove for one id -/
def forget (o : Orch) (id : String) : Orch :=
  { o with recs := o.recs.erase id, info := o.info.erase id, retries := o.retries.erase id,
           argIdx := o.argIdx.filter fun r => r.1 ≠ id }

/-- `purge()`: every table / dict of the orchestrator emptied -/
def purge (_ : Orch) : Orch := {}

end Orch

/-- orchestrator state beside `Orch`: auto-purge marks and the last atomic-service window per runner -/
structure OrchExt where
  /-- `auto_purge_timestamp` per invocation (µs) -/
  purgeAt : AMap String Int := []
  /-- `last_service_start/end` per runner (µs) -/
  svc : AMap String (Int × Int) := []
  deriving Repr

namespace OrchExt

/-- `set_up_invocation_auto_purge(id)`: `UPDATE … SET auto_purge_timestamp = now WHERE invocation_id = id`
    (nothing for an unknown id; a second call overwrites the mark) -/
def setUp (e : OrchExt) (o : Orch) (id : String) (now : Int) : OrchExt :=
  if o.recs.has id then { e with purgeAt := e.purgeAt.set id now } else e

/-- ids due at `now` for a retention of `keep` µs: mark ≤ now − keep -/
def due (e : OrchExt) (now keep : Int) : List String :=
  (e.purgeAt.filter fun p => decide (p.2 ≤ now - keep)).map (·.1)

/-- `record_atomic_service_execution(runner, start, end)`: `UPDATE … WHERE runner_id = ?` — only a
    runner that has a heartbeat row gets the window -/
def recordService (e : OrchExt) (o : Orch) (rid : String) (s t : Int) : OrchExt :=
  if o.hb.has rid then { e with svc := e.svc.set rid (s, t) } else e

end OrchExt
end Pynenc
