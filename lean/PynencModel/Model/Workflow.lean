import PynencModel.Model.Basic
/-
  Model of pynenc's deterministic workflow operations (core Lean only).

  Source: pynenc/workflow/workflow_deterministic.py (`DeterministicExecutor`), workflow_context.py
  (`WorkflowContext.deterministic`), invocation/dist_invocation.py (`run`: the executor of the running
  invocation is reset right before the body), state_backend `get_workflow_data` / `set_workflow_data`.

  * workflow data store: `(workflow, key) ↦ value`; keys are `"<op>:<sequence>"`, `"counter:<op>"`,
    `"workflow:base_time"`, `"task_invocation:<call_id>"`.
  * an *execution* (`Exec`) is one run of a task body for one invocation: it owns a fresh
    `DeterministicExecutor` (counters at zero, bound to the workflow of the running invocation).
  * `_deterministic_operation(op, generator)`: `n := ++counter[op]`; `get "<op>:<n>"`; recorded ⇒ return it;
    else `v := generator()`; `set "<op>:<n>" v`; `get "counter:<op>"`; `set "counter:<op>" max(total, n)`; return v.
    The generators read the counter *after* the increment and add one, so the value recorded under
    `"<op>:<n>"` is the generator at `n + 1`:  `random`/`uuid` = hash of `"<workflow_id>:<op>:<n+1>"`
    (an abstract function `Val.gen workflow op (n+1)`), `utc_now` = `base_time + (n+1) s` where
    `base_time` is `get "workflow:base_time"`, or `now()` recorded by a `set` when absent.
  * `execute_task(task, args)`: `get "task_invocation:<call_id>"`; recorded ⇒ that invocation;
    else launch (`task(*args)`, a new invocation) and `set` its id.
  Every backend access (`get`, `set`, launch) is one atomic micro-step (`stepExec`); executions are
  interleaved by an arbitrary list of events (`Event`), the clock reading and the id of a newly
  launched invocation are inputs of the step.  `kill` is a hard stop of an execution at any micro-step.

  `Old*` is the faithful model of the design before the repair (`fix:` commit c67f76b): one executor
  cached on the `Task` object for the life of the process.
-/
namespace Pynenc.Workflow

/-- the three generator operations of `DeterministicExecutor` -/
inductive OpK where
  | random | uuid | time
deriving DecidableEq, Repr

/-- an operation a task body issues through `task.wf`; `sub c` = `execute_task` with call identity `c` -/
inductive Op where
  | det (k : OpK)
  | sub (c : Nat)
deriving DecidableEq, Repr

/-- key of a workflow-data record -/
inductive Key where
  | seq (k : OpK) (n : Nat)      -- "<op>:<n>"
  | counter (k : OpK)            -- "counter:<op>"
  | baseTime                     -- "workflow:base_time"
  | taskInv (c : Nat)            -- "task_invocation:<call_id>"
deriving DecidableEq, Repr

/-- stored / returned values.  `gen w k s` is the abstract generator (md5 of "<w>:<k>:<s>") -/
inductive Val where
  | gen (w : Nat) (k : OpK) (s : Nat)
  | time (t : Nat)
  | count (n : Nat)
  | inv (i : Nat)
deriving DecidableEq, Repr

/-- `datetime.fromisoformat(stored)` -/
def Val.asTime : Val → Nat
  | .time t => t
  | _ => 0

/-- `stored or 0` -/
def asCount : Option Val → Nat
  | some (.count n) => n
  | _ => 0

abbrev Store := AMap (Nat × Key) Val

/-- `_operation_counters` -/
structure Ctr where
  r : Nat := 0
  u : Nat := 0
  t : Nat := 0
deriving DecidableEq, Repr

def Ctr.get (c : Ctr) : OpK → Nat
  | .random => c.r
  | .uuid => c.u
  | .time => c.t

def Ctr.bump (c : Ctr) : OpK → Ctr
  | .random => { c with r := c.r + 1 }
  | .uuid => { c with u := c.u + 1 }
  | .time => { c with t := c.t + 1 }

/-- where an execution stands inside the operation it is performing (the next backend access) -/
inductive Phase where
  | idle                                             -- between two operations
  | baseGet (n : Nat)                                -- utc_now, no record: next `get workflow:base_time`
  | baseSet (n : Nat) (b : Nat)                      -- no base time: next `set workflow:base_time b`
  | seqSet (k : OpK) (n : Nat) (v : Val)             -- generated `v`: next `set "<k>:<n>" v`
  | cntGet (k : OpK) (n : Nat) (v : Val)             -- next `get "counter:<k>"`
  | cntSet (k : OpK) (n : Nat) (v : Val) (cur : Nat) -- next `set "counter:<k>" max(cur, n)`, then return `v`
  | launch (c : Nat)                                 -- execute_task, no record: next `task(*args)`
  | subSet (c : Nat) (i : Nat)                       -- launched `i`: next `set "task_invocation:<c>" i`
deriving DecidableEq, Repr

/-- the generator operation an execution is inside of, if any -/
def Phase.kind : Phase → Option OpK
  | .baseGet _ => some .time
  | .baseSet _ _ => some .time
  | .seqSet k _ _ => some k
  | .cntGet k _ _ => some k
  | .cntSet k _ _ _ => some k
  | _ => none

/-- the value an execution is about to record / return for its current generator operation -/
def Phase.pending : Phase → Option (OpK × Nat × Val)
  | .seqSet k n v => some (k, n, v)
  | .cntGet k n v => some (k, n, v)
  | .cntSet k n v _ => some (k, n, v)
  | _ => none

/-- the sequence number of the generator operation in progress -/
def Phase.seqNo : Phase → Option Nat
  | .baseGet n => some n
  | .baseSet n _ => some n
  | .seqSet _ n _ => some n
  | .cntGet _ n _ => some n
  | .cntSet _ n _ _ => some n
  | _ => none

/-- one returned value: the operation, the executor's sequence number for it (0 for `sub`), the value -/
structure Entry where
  op : Op
  n : Nat
  val : Val
deriving DecidableEq, Repr

/-- one execution of a task body (one `DistributedInvocation.run`) -/
structure Exec where
  body : List Op
  /-- values returned so far, **newest first** -/
  out : List Entry := []
  ctr : Ctr := {}
  phase : Phase := .idle
  live : Bool := true
deriving DecidableEq, Repr

/-- a launch performed by `execute_task`: (workflow, call identity, new invocation) -/
abbrev Launch := Nat × Nat × Nat

/-- One backend access of execution `e`, which runs for workflow `w`.
    `now` = clock reading, `fresh` = id the orchestrator gives to an invocation launched in this step. -/
def stepExec (w : Nat) (st : Store) (e : Exec) (now fresh : Nat) : Exec × Store × List Launch :=
  match e.phase with
  | .idle =>
    match e.body[e.out.length]? with
    | none => (e, st, [])
    | some (.det k) =>
      let n := e.ctr.get k + 1
      let e1 := { e with ctr := e.ctr.bump k }
      match st.get? (w, .seq k n) with
      | some v => ({ e1 with out := ⟨.det k, n, v⟩ :: e.out }, st, [])
      | none =>
        if k = .time then ({ e1 with phase := .baseGet n }, st, [])
        else ({ e1 with phase := .seqSet k n (.gen w k (n + 1)) }, st, [])
    | some (.sub c) =>
      match st.get? (w, .taskInv c) with
      | some v => ({ e with out := ⟨.sub c, 0, v⟩ :: e.out }, st, [])
      | none => ({ e with phase := .launch c }, st, [])
  | .baseGet n =>
    match st.get? (w, .baseTime) with
    | some v => ({ e with phase := .seqSet .time n (.time (v.asTime + (n + 1))) }, st, [])
    | none => ({ e with phase := .baseSet n now }, st, [])
  | .baseSet n b =>
    ({ e with phase := .seqSet .time n (.time (b + (n + 1))) }, st.set (w, .baseTime) (.time b), [])
  | .seqSet k n v => ({ e with phase := .cntGet k n v }, st.set (w, .seq k n) v, [])
  | .cntGet k n v => ({ e with phase := .cntSet k n v (asCount (st.get? (w, .counter k))) }, st, [])
  | .cntSet k n v cur =>
    ({ e with phase := .idle, out := ⟨.det k, n, v⟩ :: e.out }, st.set (w, .counter k) (.count (max cur n)), [])
  | .launch c => ({ e with phase := .subSet c fresh }, st, [(w, c, fresh)])
  | .subSet c i =>
    ({ e with phase := .idle, out := ⟨.sub c, 0, .inv i⟩ :: e.out }, st.set (w, .taskInv c) (.inv i), [])

/-- the whole system: the state backend's workflow data, the executions (identified by workflow and
    an attempt tag), the launches done so far.  Nothing else survives between executions: the
    executor lives on the running invocation and is discarded when the body starts again. -/
structure World where
  store : Store := []
  execs : AMap (Nat × Nat) Exec := []
  launches : List Launch := []
deriving Repr

inductive Event where
  | start (w a : Nat) (body : List Op)      -- a runner starts the body for an invocation of workflow `w`
  | step (w a : Nat) (now fresh : Nat)      -- execution `(w, a)` performs its next backend access
  | kill (w a : Nat)                        -- the execution stops for good (exception, runner death)
deriving DecidableEq, Repr

def Event.wf : Event → Nat
  | .start w _ _ => w
  | .step w _ _ _ => w
  | .kill w _ => w

def World.apply (s : World) : Event → World
  | .start w a body =>
    if s.execs.has (w, a) then s else { s with execs := s.execs.set (w, a) { body := body } }
  | .step w a now fresh =>
    match s.execs.get? (w, a) with
    | none => s
    | some e =>
      if e.live then
        let r := stepExec w s.store e now fresh
        { store := r.2.1, execs := s.execs.set (w, a) r.1, launches := s.launches ++ r.2.2 }
      else s
  | .kill w a =>
    match s.execs.get? (w, a) with
    | none => s
    | some e => { s with execs := s.execs.set (w, a) { e with live := false } }

def World.run (s : World) (evs : List Event) : World := evs.foldl World.apply s

/-- an execution that is inside an operation and can still move -/
def Exec.midOp (e : Exec) : Bool := e.live && decide (e.phase ≠ .idle)

/-- the step `(w, a)` is taken while no *other* running execution of the same workflow is inside an
    operation (executions of other workflows may be anywhere) -/
def World.okEvent (s : World) : Event → Bool
  | .step w a _ _ => s.execs.all fun p => decide (p.1.1 ≠ w) || decide (p.1.2 = a) || !p.2.midOp
  | _ => true

/-- schedules in which executions of one workflow do not overlap *inside* an operation: attempts one
    after the other (retry, recovery re-run, replay), interleaved operation by operation, stopped at any
    backend access — interleaved access by access with any number of executions for other workflows -/
def World.serialRun (s : World) : List Event → Bool
  | [] => true
  | ev :: evs => s.okEvent ev && (s.apply ev).serialRun evs

/-- no execution is stopped between launching a sub-task and recording its invocation id -/
def World.noLaunchCrash (s : World) : List Event → Bool
  | [] => true
  | ev :: evs =>
    (match ev with
     | .kill w a => match s.execs.get? (w, a) with
       | some e => !(e.live && (match e.phase with | .subSet _ _ => true | _ => false))
       | none => true
     | _ => true) && (s.apply ev).noLaunchCrash evs

/-- launches of `execute_task` for workflow `w` and call `c` -/
def launchesOf (ls : List Launch) (w c : Nat) : List Nat :=
  (ls.filter fun l => decide (l.1 = w) && decide (l.2.1 = c)).map (·.2.2)

/-- number of `det k` entries: how many values of kind `k` the execution has been given so far -/
def occ (k : OpK) : List Entry → Nat
  | [] => 0
  | e :: es => (if e.op = .det k then 1 else 0) + occ k es

/-- run `(w, a)` until its current operation returns (driver convenience; at most 6 accesses) -/
def World.opLoop : Nat → World → Nat → Nat → Nat → Nat → World
  | 0, s, _, _, _, _ => s
  | fuel + 1, s, w, a, now, fresh =>
    let s' := s.apply (.step w a now fresh)
    match s'.execs.get? (w, a) with
    | some e => if e.phase = .idle then s' else opLoop fuel s' w a now fresh
    | none => s'

def World.runOp (s : World) (w a now fresh : Nat) : World := World.opLoop 8 s w a now fresh

/-! ### the design before the repair: one executor per task object per process -/

/-- a whole operation performed in one go by an executor bound to workflow `w` with counters `c` -/
def atomicOp (w : Nat) (c : Ctr) (st : Store) (now fresh : Nat) : Op → Ctr × Store × Val × List Launch
  | .det k =>
    let n := c.get k + 1
    let c1 := c.bump k
    match st.get? (w, .seq k n) with
    | some v => (c1, st, v, [])
    | none =>
      let (v, st1) :=
        if k = .time then
          match st.get? (w, .baseTime) with
          | some b => (Val.time (b.asTime + (n + 1)), st)
          | none => (Val.time (now + (n + 1)), st.set (w, .baseTime) (.time now))
        else (Val.gen w k (n + 1), st)
      let st2 := st1.set (w, .seq k n) v
      let st3 := st2.set (w, .counter k) (.count (max (asCount (st2.get? (w, .counter k))) n))
      (c1, st3, v, [])
  | .sub cl =>
    match st.get? (w, .taskInv cl) with
    | some v => (c, st, v, [])
    | none => (c, st.set (w, .taskInv cl) (.inv fresh), .inv fresh, [(w, cl, fresh)])

/-- the backend accesses of one operation performed back to back (no other execution in between) -/
def microLoop : Nat → Nat → Store → Exec → Nat → Nat → List Launch → Exec × Store × List Launch
  | 0, _, st, e, _, _, ls => (e, st, ls)
  | fuel + 1, w, st, e, now, fresh, ls =>
    let r := stepExec w st e now fresh
    if r.1.phase = .idle then (r.1, r.2.1, ls ++ r.2.2) else microLoop fuel w r.2.1 r.1 now fresh (ls ++ r.2.2)

/-- the sequence number an executor with counters `c` uses for its next operation -/
def Op.seqOf (c : Ctr) : Op → Nat
  | .det k => c.get k + 1
  | .sub _ => 0

structure OldExecutor where
  wf : Nat
  ctr : Ctr := {}
deriving DecidableEq, Repr

/-- `cache` = `Task.wf._deterministic`: created at the first use in the process, bound to the workflow of
    the invocation running at that moment, never replaced -/
structure OldWorld where
  store : Store := []
  cache : Option OldExecutor := none
  launches : List Launch := []
deriving Repr

def oldOps (ex : OldExecutor) (st : Store) (now fresh : Nat) :
    List Op → OldExecutor × Store × List Val × List Launch
  | [] => (ex, st, [], [])
  | op :: ops =>
    let r := atomicOp ex.wf ex.ctr st now fresh op
    let r2 := oldOps { ex with ctr := r.1 } r.2.1 now (fresh + 1) ops
    (r2.1, r2.2.1, r.2.2.1 :: r2.2.2.1, r.2.2.2 ++ r2.2.2.2)

/-- the body of an invocation of workflow `w` runs in the process (old design); returns the values it saw -/
def OldWorld.runBody (s : OldWorld) (w : Nat) (body : List Op) (now fresh : Nat) : OldWorld × List Val :=
  let ex := match s.cache with
    | some ex => ex
    | none => { wf := w }
  let r := oldOps ex s.store now fresh body
  ({ store := r.2.1, cache := some r.1, launches := s.launches ++ r.2.2.2 }, r.2.2.1)

/-- a fresh interpreter: the cached executor is gone, the state backend stays -/
def OldWorld.restart (s : OldWorld) : OldWorld := { s with cache := none }

/-- all records of workflow `w` (for read-outs) -/
def recordsOf (st : Store) (w : Nat) : List (Key × Val) :=
  (st.filter fun p => decide (p.1.1 = w)).map fun p => (p.1.2, p.2)

end Pynenc.Workflow
