import PynencModel.Gen.ReservedKeys
/-
  L1 model of pynenc/serializer/json_serializer.py at the level of trees:
    `serialize(obj)   = json.dumps(_preprocess_for_json(obj), cls=DefaultJSONEncoder)`
    `deserialize(s)   = _reconstruct_from_json(json.loads(s))`
  `pre` is `_preprocess_for_json`, `enc` is what the encoder (with `DefaultJSONEncoder.default`) emits, read back
  as the tree `json.loads` returns, `recon` is `_reconstruct_from_json`.  The text layer of the `json` module
  (`loads (dumps t) = t` on JSON trees) is third-party and is sampled by the correspondence check, not modelled.
  Core Lean only.
-/
namespace Pynenc.Json
open Pynenc.Gen

mutual
/-- Python values of the JSON serializer's domain, and the trees `json.loads` returns -/
inductive PyVal where
  | none
  | bool (b : Bool)
  | int (i : Int)
  | float (bits : Nat)                                   -- binary64 bit pattern (compared by bits)
  | str (s : String)
  | list (xs : PyList)
  | tuple (xs : PyList)
  | dict (kvs : PyDict)                                  -- string keys, insertion ordered
  | enum (mod qual : String) (native : Bool) (value : PyVal)   -- member of an Enum class; `native` = IntEnum/StrEnum
  | exc (mod qual : String) (args : PyList) (msg : String)     -- exception instance, `msg = str(e)`
  | obj (mod qual : String) (data : PyVal)               -- JsonSerializable instance whose `to_json()` is `data`
  deriving DecidableEq, Repr
inductive PyList where
  | nil
  | cons (v : PyVal) (rest : PyList)
  deriving DecidableEq, Repr
inductive PyDict where
  | nil
  | cons (k : String) (v : PyVal) (rest : PyDict)
  deriving DecidableEq, Repr
end

/-- what the process knows about classes: `hasattr(builtins, name)` and `_resolve_class(module, qualname)` -/
inductive Kind where
  | exc
  | obj
  | enum (native : Bool) (members : PyList)
  deriving DecidableEq, Repr

structure ClassInfo where
  mod : String
  qual : String
  kind : Kind
  deriving Repr

structure Registry where
  builtins : List String := []
  classes : List ClassInfo := []

def Registry.builtinHas (r : Registry) (n : String) : Bool := r.builtins.contains n

def lookupIn : List ClassInfo → String → String → Option Kind
  | [], _, _ => none
  | c :: rest, m, q => if c.mod = m ∧ c.qual = q then some c.kind else lookupIn rest m q

def Registry.lookup (r : Registry) (m q : String) : Option Kind := lookupIn r.classes m q

def PyList.contains : PyList → PyVal → Bool
  | .nil, _ => false
  | .cons x rest, v => if x = v then true else rest.contains v

def PyDict.get : PyDict → String → Option PyVal
  | .nil, _ => none
  | .cons k v rest, n => if k = n then some v else rest.get n

def negZeroBits : Nat := 9223372036854775808

/-- Python truth value (of a tree returned by `json.loads`) -/
def truthy : PyVal → Bool
  | .none => false
  | .bool b => b
  | .int i => i != 0
  | .float bits => bits != 0 && bits != negZeroBits
  | .str s => s != ""
  | .list .nil => false
  | .tuple .nil => false
  | .dict .nil => false
  | _ => true

def d3 (k1 : String) (v1 : PyVal) (k2 : String) (v2 : PyVal) (k3 : String) (v3 : PyVal) : PyVal :=
  .dict (.cons k1 v1 (.cons k2 v2 (.cons k3 v3 .nil)))

def d4 (k1 : String) (v1 : PyVal) (k2 : String) (v2 : PyVal) (k3 : String) (v3 : PyVal) (k4 : String) (v4 : PyVal) :
    PyVal :=
  .dict (.cons k1 v1 (.cons k2 v2 (.cons k3 v3 (.cons k4 v4 .nil))))

def envelope (key : String) (payload : PyVal) : PyVal := .dict (.cons key payload .nil)

def enumEnvelope (m q : String) (value : PyVal) : PyVal :=
  envelope Reserved.enum (d3 "module" (.str m) "qualname" (.str q) "value" value)

def errorEnvelope (q : String) (args : PyList) (msg : String) : PyVal :=
  envelope Reserved.error (d3 "type" (.str q) "args" (.list args) "message" (.str msg))

def clientExcEnvelope (m q : String) (args : PyList) (msg : String) : PyVal :=
  envelope Reserved.clientException (d4 "module" (.str m) "qualname" (.str q) "args" (.list args) "message" (.str msg))

def objEnvelope (m q : String) (data : PyVal) : PyVal :=
  envelope Reserved.jsonSerializable (d3 "module" (.str m) "qualname" (.str q) "data" data)

mutual
/-- `_preprocess_for_json`: Enum members reachable through dicts, lists and tuples become envelopes -/
def pre : PyVal → PyVal
  | .enum m q _ v => enumEnvelope m q v
  | .dict kvs => .dict (preDict kvs)
  | .list xs => .list (preList xs)
  | .tuple xs => .list (preList xs)
  | v => v
def preList : PyList → PyList
  | .nil => .nil
  | .cons v rest => .cons (pre v) (preList rest)
def preDict : PyDict → PyDict
  | .nil => .nil
  | .cons k v rest => .cons k (pre v) (preDict rest)
end

mutual
/-- the tree emitted by `json.dumps(·, cls=DefaultJSONEncoder)`: tuples become lists, a native (Int/Str) Enum its
    plain value, and `default()` wraps plain Enums, exceptions and JsonSerializable objects in envelopes whose
    contents are encoded in turn -/
def enc : PyVal → PyVal
  | .list xs => .list (encList xs)
  | .tuple xs => .list (encList xs)
  | .dict kvs => .dict (encDict kvs)
  | .enum m q native v => if native then enc v else enumEnvelope m q (enc v)
  | .exc m q args msg =>
    if m = "builtins" then errorEnvelope q (encList args) msg else clientExcEnvelope m q (encList args) msg
  | .obj m q data => objEnvelope m q (enc data)
  | v => v
def encList : PyList → PyList
  | .nil => .nil
  | .cons v rest => .cons (enc v) (encList rest)
def encDict : PyDict → PyDict
  | .nil => .nil
  | .cons k v rest => .cons k (enc v) (encDict rest)
end

/-- `JsonSerializer.serialize` up to the text layer -/
def encode (v : PyVal) : PyVal := enc (pre v)

inductive Err where
  | raises        -- the real function raises
  | unmodelled    -- outside what the model covers (the harness never sends such inputs)
  deriving DecidableEq, Repr

abbrev R := Except Err PyVal

def strChars : List Char → PyList
  | [] => .nil
  | c :: rest => .cons (.str (String.singleton c)) (strChars rest)

def dictKeys : PyDict → PyList
  | .nil => .nil
  | .cons k _ rest => .cons (.str k) (dictKeys rest)

/-- `*args` unpacking of a JSON value -/
def splat : PyVal → Except Err PyList
  | .list xs => .ok xs
  | .str s => .ok (strChars s.toList)
  | .dict kvs => .ok (dictKeys kvs)
  | .none => .error .raises
  | .bool _ => .error .raises
  | .int _ => .error .raises
  | .float _ => .error .raises
  | _ => .error .unmodelled

def truthyGet (kvs : PyDict) (key : String) : Option PyVal :=
  match kvs.get key with
  | some p => if truthy p then some p else none
  | none => none

/-- `RuntimeError(text)` -/
def runtimeError (text : String) : PyVal := .exc "builtins" "RuntimeError" (.cons (.str text) .nil) text

/-- payload of `ReservedKeys.ERROR` -/
def reconError (reg : Registry) : PyVal → R
  | .dict p =>
    match p.get "type", p.get "args" with
    | some (.str t), some args =>
      if reg.builtinHas t then
        match splat args, p.get "message" with
        | .ok a, some (.str msg) => .ok (.exc "builtins" t a msg)
        | .ok _, _ => .error .unmodelled
        | .error e, _ => .error e
      else
        match p.get "message" with
        | some (.str msg) => .ok (runtimeError (t ++ ": " ++ msg))
        | _ => .error .unmodelled
    | some _, some _ => .error .raises          -- hasattr(builtins, <non-str>) : TypeError
    | _, _ => .error .raises                    -- KeyError
  | _ => .error .raises                         -- payload is not subscriptable by a string

/-- payload of `ReservedKeys.CLIENT_EXCEPTION` (`try … except Exception` falls back to a RuntimeError) -/
def reconClientExc (reg : Registry) (payload : PyVal) : R :=
  let fallback : R :=
    match payload with
    | .dict p =>
      match p.get "qualname", p.get "message" with
      | some (.str q), some (.str msg) => .ok (runtimeError (q ++ ": " ++ msg))
      | some _, some _ => .error .unmodelled
      | _, _ => .error .raises
    | _ => .error .raises
  match payload with
  | .dict p =>
    match p.get "module", p.get "qualname", p.get "args" with
    | some (.str m), some (.str q), some args =>
      match reg.lookup m q with
      | some .exc =>
        match splat args, p.get "message" with
        | .ok a, some (.str msg) => .ok (.exc m q a msg)
        | .ok _, _ => .error .unmodelled
        | .error .raises, _ => fallback
        | .error .unmodelled, _ => .error .unmodelled
      | some _ => .error .unmodelled
      | none => fallback
    | _, _, _ => fallback
  | _ => fallback

/-- payload of `ReservedKeys.JSON_SERIALIZABLE` -/
def reconObj (reg : Registry) : PyVal → R
  | .dict p =>
    match p.get "module", p.get "qualname" with
    | some (.str m), some (.str q) =>
      match reg.lookup m q with
      | some .obj =>
        match p.get "data" with
        | some d => .ok (.obj m q d)
        | none => .error .raises
      | some _ => .error .unmodelled
      | none => .error .raises
    | some _, some _ => .error .raises
    | _, _ => .error .raises
  | _ => .error .raises

/-- payload of `ReservedKeys.ENUM` -/
def reconEnum (reg : Registry) : PyVal → R
  | .dict p =>
    match p.get "module", p.get "qualname" with
    | some (.str m), some (.str q) =>
      match reg.lookup m q with
      | some (.enum native members) =>
        match p.get "value" with
        | some v => if members.contains v then .ok (.enum m q native v) else .error .raises
        | none => .error .raises
      | some _ => .error .unmodelled
      | none => .error .raises
    | some _, some _ => .error .raises
    | _, _ => .error .raises
  | _ => .error .raises

mutual
/-- `_reconstruct_from_json` -/
def recon (reg : Registry) : PyVal → R
  | .dict kvs =>
    match truthyGet kvs Reserved.error with
    | some p => reconError reg p
    | none =>
      match truthyGet kvs Reserved.clientException with
      | some p => reconClientExc reg p
      | none =>
        match truthyGet kvs Reserved.jsonSerializable with
        | some p => reconObj reg p
        | none =>
          match truthyGet kvs Reserved.enum with
          | some p => reconEnum reg p
          | none =>
            match reconDict reg kvs with
            | .ok d => .ok (.dict d)
            | .error e => .error e
  | .list xs =>
    match reconList reg xs with
    | .ok l => .ok (.list l)
    | .error e => .error e
  | v => .ok v
def reconList (reg : Registry) : PyList → Except Err PyList
  | .nil => .ok .nil
  | .cons v rest =>
    match recon reg v, reconList reg rest with
    | .ok v', .ok r' => .ok (.cons v' r')
    | .error e, _ => .error e
    | _, .error e => .error e
def reconDict (reg : Registry) : PyDict → Except Err PyDict
  | .nil => .ok .nil
  | .cons k v rest =>
    match recon reg v, reconDict reg rest with
    | .ok v', .ok r' => .ok (.cons k v' r')
    | .error e, _ => .error e
    | _, .error e => .error e
end

/-- `JsonSerializer.deserialize (JsonSerializer.serialize v)` up to the text layer -/
def roundtrip (reg : Registry) (v : PyVal) : R := recon reg (encode v)

/-! ### the round-trip domain -/

mutual
/-- a JSON tree: nothing for the encoder or the reconstruction to touch -/
def isPlain : PyVal → Bool
  | .none => true
  | .bool _ => true
  | .int _ => true
  | .float _ => true
  | .str _ => true
  | .list xs => isPlainList xs
  | .dict kvs => isPlainDict kvs
  | _ => false
def isPlainList : PyList → Bool
  | .nil => true
  | .cons v rest => isPlain v && isPlainList rest
def isPlainDict : PyDict → Bool
  | .nil => true
  | .cons _ v rest => isPlain v && isPlainDict rest
end

/-- a value whose truth value is False and that the serializer leaves alone -/
def isFalsy : PyVal → Bool
  | .none => true
  | .bool b => !b
  | .int i => i == 0
  | .float bits => bits == 0 || bits == negZeroBits
  | .str s => s == ""
  | .list .nil => true
  | .dict .nil => true
  | _ => false

def reservedKeys : List String :=
  [Reserved.error, Reserved.clientException, Reserved.jsonSerializable, Reserved.enum]

/-- no reserved envelope key with a truthy payload in a user dictionary -/
def noReservedTruthy (kvs : PyDict) : Bool :=
  reservedKeys.all fun r =>
    match kvs.get r with
    | some v => isFalsy v
    | none => true

mutual
/-- the stated well-formedness predicate of `json_roundtrip` -/
def wf (reg : Registry) : PyVal → Bool
  | .none => true
  | .bool _ => true
  | .int _ => true
  | .float _ => true
  | .str _ => true
  | .list xs => wfList reg xs
  | .tuple _ => false
  | .dict kvs => noReservedTruthy kvs && wfDict reg kvs
  | .enum m q native v =>
    isPlain v &&
      (match reg.lookup m q with
       | some (.enum n members) => n == native && members.contains v
       | _ => false)
  | .exc m q args _ =>
    isPlainList args &&
      (if m = "builtins" then reg.builtinHas q
       else match reg.lookup m q with
         | some .exc => true
         | _ => false)
  | .obj m q data =>
    isPlain data &&
      (match reg.lookup m q with
       | some .obj => true
       | _ => false)
def wfList (reg : Registry) : PyList → Bool
  | .nil => true
  | .cons v rest => wf reg v && wfList reg rest
def wfDict (reg : Registry) : PyDict → Bool
  | .nil => true
  | .cons _ v rest => wf reg v && wfDict reg rest
end

end Pynenc.Json
