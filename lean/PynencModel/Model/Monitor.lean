import PynencModel.Model.Basic
/-
  C20 — model of what the monitor (`pynmon`) can do to the monitored application.

  * `Sys`     — everything the property calls "the system": the broker queue (in order), the stored
                invocation records, status / owner / timestamp of every invocation, retry counters, results,
                exceptions, histories, runner contexts and heartbeat records, the wait graph, the auto-purge
                queue, workflow runs / sub-invocations / data, the trigger store (conditions, trigger
                definitions, valid conditions, cron bookkeeping, run claims) and the client data store.
  * `Method`  — the component-API methods of `BaseBroker`, `BaseOrchestrator`, `BaseStateBackend`,
                `BaseTrigger`, `BaseClientDataStore` the monitor can reach (and the principal mutators), with
                their python names (`Method.name`), an executable semantics on `Sys` (`exec`) and the
                hand-written classification `Method.kind` (read-only / mutating).  The harness validates the
                classification against the real methods on both backend families by before/after read-outs.
  * `Prog`    — a request handler seen from the backends: an adaptive sequence of component calls (the next
                call may depend on every earlier answer) that may stop with an error at any point.
  * `Handler` — one row of the route table generated from the FastAPI application (`Gen/Handlers.lean`).
  * `queueView` / `queueViewOld` — `pynmon/views/broker.py:queue_view` as it is now (drain everything, route
                everything back in a `finally`, then load the first `limit` records) and as it was before
                the repair (pop `min(limit, n)`, load each record right away, route back afterwards).

  Core Lean only.
-/
namespace Pynenc.Monitor
open Pynenc

/-! ### the system state -/

structure StatusRec where
  status : String
  owner  : Option String
  ts     : Int
  deriving DecidableEq, Repr

structure InvRec where
  parent : Option String
  task   : String
  call   : String
  wf     : String
  deriving DecidableEq, Repr

structure HistEntry where
  id     : String
  status : String
  runner : Option String
  ts     : Int
  deriving DecidableEq, Repr

structure Heartbeat where
  created  : Int
  last     : Int
  atomic   : Bool
  svcStart : Option Int
  svcEnd   : Option Int
  deriving DecidableEq, Repr

structure Sys where
  queue      : List String := []
  records    : AMap String InvRec := []
  status     : AMap String StatusRec := []
  retries    : AMap String Nat := []
  results    : AMap String String := []
  exceptions : AMap String String := []
  history    : List HistEntry := []
  runnerCtx  : AMap String String := []
  heartbeats : AMap String Heartbeat := []
  waits      : List (String × String) := []
  autoPurge  : List (Int × String) := []
  wfRuns     : List (String × String) := []
  wfSubs     : List (String × String) := []
  wfData     : AMap (String × String) String := []
  conditions : AMap String String := []
  triggerDefs : AMap String String := []
  validConds : AMap String String := []
  cronLast   : AMap String Int := []
  runClaims  : AMap String Int := []
  cds        : AMap String String := []
  deriving DecidableEq, Repr

/-! ### component API -/

inductive Kind where
  | readOnly
  | mutating
  deriving DecidableEq, Repr

/-- arguments of a call (each method uses the fields it needs) -/
structure Args where
  id    : String := ""
  id2   : String := ""
  ids   : List String := []
  n     : Int := 0
  val   : String := ""
  owner : Option String := none
  flag  : Bool := false
  deriving DecidableEq, Repr

/-- what a call hands back to the handler -/
inductive Res where
  | unit
  | num (n : Int)
  | opt (s : Option String)
  | list (l : List String)
  | raised (what : String)
  deriving DecidableEq, Repr

inductive Method where
  -- broker
  | brokerCount | brokerRetrieve | brokerRoute | brokerRouteMany | brokerPurge
  -- orchestrator, reads
  | orchCount | orchActiveRunners | orchBlocking | orchExisting | orchStatus | orchStatusRecord | orchRetries
  | orchIdsPaginated | orchTaskIds | orchCallIds | orchFilterByStatus | orchFilterFinal
  -- orchestrator, writes
  | orchSetStatus | orchSetResult | orchSetException | orchSetRetry | orchIncRetries | orchRegisterNew
  | orchRouteCall | orchRouteCalls | orchReroute | orchInvocationsToRun | orchHeartbeats | orchRecordAtomic
  | orchWaitingFor | orchReleaseWaiters | orchSetUpAutoPurge | orchAutoPurge | orchPurge
  -- state backend, reads
  | sbGetInvocation | sbGetHistory | sbGetResult | sbGetException | sbGetRunnerContext | sbGetRunnerContexts
  | sbMatchingRunnerContexts | sbChildren | sbWorkflowTypes | sbAllWorkflowRuns | sbWorkflowRuns
  | sbWorkflowSubs | sbWorkflowData | sbIdsByWorkflow | sbIterHistory | sbIterInvocations
  -- state backend, writes
  | sbUpsert | sbAddHistory | sbAddHistories | sbSetResult | sbSetException | sbStoreRunnerContext
  | sbStoreWorkflowRun | sbStoreWorkflowSub | sbSetWorkflowData | sbPurge
  -- trigger, reads
  | trGetCondition | trGetTrigger | trTriggersForCondition | trConditionsFromTask | trValidConditions | trLastCron
  -- trigger, writes
  | trRegisterCondition | trRegisterTrigger | trRecordValid | trClearValid | trStoreLastCron | trClaimRun
  | trEmitEvent | trPurge
  -- client data store
  | cdsDeserializeArgs | cdsResolve | cdsIsReference | cdsSerializeArgs | cdsSerialize | cdsPurge
  deriving DecidableEq, Repr

/-- `component.method` as written in the python source -/
def Method.name : Method → String
  | .brokerCount => "broker.count_invocations"
  | .brokerRetrieve => "broker.retrieve_invocation"
  | .brokerRoute => "broker.route_invocation"
  | .brokerRouteMany => "broker.route_invocations"
  | .brokerPurge => "broker.purge"
  | .orchCount => "orchestrator.count_invocations"
  | .orchActiveRunners => "orchestrator.get_active_runners"
  | .orchBlocking => "orchestrator.get_blocking_invocations"
  | .orchExisting => "orchestrator.get_existing_invocations"
  | .orchStatus => "orchestrator.get_invocation_status"
  | .orchStatusRecord => "orchestrator.get_invocation_status_record"
  | .orchRetries => "orchestrator.get_invocation_retries"
  | .orchIdsPaginated => "orchestrator.get_invocation_ids_paginated"
  | .orchTaskIds => "orchestrator.get_task_invocation_ids"
  | .orchCallIds => "orchestrator.get_call_invocation_ids"
  | .orchFilterByStatus => "orchestrator.filter_by_status"
  | .orchFilterFinal => "orchestrator.filter_final"
  | .orchSetStatus => "orchestrator.set_invocation_status"
  | .orchSetResult => "orchestrator.set_invocation_result"
  | .orchSetException => "orchestrator.set_invocation_exception"
  | .orchSetRetry => "orchestrator.set_invocation_retry"
  | .orchIncRetries => "orchestrator.increment_invocation_retries"
  | .orchRegisterNew => "orchestrator.register_new_invocations"
  | .orchRouteCall => "orchestrator.route_call"
  | .orchRouteCalls => "orchestrator.route_calls"
  | .orchReroute => "orchestrator.reroute_invocations"
  | .orchInvocationsToRun => "orchestrator.get_invocations_to_run"
  | .orchHeartbeats => "orchestrator.register_runner_heartbeats"
  | .orchRecordAtomic => "orchestrator.record_atomic_service_execution"
  | .orchWaitingFor => "orchestrator.waiting_for_results"
  | .orchReleaseWaiters => "orchestrator.release_waiters"
  | .orchSetUpAutoPurge => "orchestrator.set_up_invocation_auto_purge"
  | .orchAutoPurge => "orchestrator.auto_purge"
  | .orchPurge => "orchestrator.purge"
  | .sbGetInvocation => "state_backend.get_invocation"
  | .sbGetHistory => "state_backend.get_history"
  | .sbGetResult => "state_backend.get_result"
  | .sbGetException => "state_backend.get_exception"
  | .sbGetRunnerContext => "state_backend.get_runner_context"
  | .sbGetRunnerContexts => "state_backend.get_runner_contexts"
  | .sbMatchingRunnerContexts => "state_backend.get_matching_runner_contexts"
  | .sbChildren => "state_backend.get_child_invocations"
  | .sbWorkflowTypes => "state_backend.get_all_workflow_types"
  | .sbAllWorkflowRuns => "state_backend.get_all_workflow_runs"
  | .sbWorkflowRuns => "state_backend.get_workflow_runs"
  | .sbWorkflowSubs => "state_backend.get_workflow_sub_invocations"
  | .sbWorkflowData => "state_backend.get_workflow_data"
  | .sbIdsByWorkflow => "state_backend.get_invocation_ids_by_workflow"
  | .sbIterHistory => "state_backend.iter_history_in_timerange"
  | .sbIterInvocations => "state_backend.iter_invocations_in_timerange"
  | .sbUpsert => "state_backend.upsert_invocations"
  | .sbAddHistory => "state_backend.add_history"
  | .sbAddHistories => "state_backend.add_histories"
  | .sbSetResult => "state_backend.set_result"
  | .sbSetException => "state_backend.set_exception"
  | .sbStoreRunnerContext => "state_backend.store_runner_context"
  | .sbStoreWorkflowRun => "state_backend.store_workflow_run"
  | .sbStoreWorkflowSub => "state_backend.store_workflow_sub_invocation"
  | .sbSetWorkflowData => "state_backend.set_workflow_data"
  | .sbPurge => "state_backend.purge"
  | .trGetCondition => "trigger.get_condition"
  | .trGetTrigger => "trigger.get_trigger"
  | .trTriggersForCondition => "trigger.get_triggers_for_condition"
  | .trConditionsFromTask => "trigger.get_conditions_sourced_from_task"
  | .trValidConditions => "trigger.get_valid_conditions"
  | .trLastCron => "trigger.get_last_cron_execution"
  | .trRegisterCondition => "trigger.register_condition"
  | .trRegisterTrigger => "trigger.register_trigger"
  | .trRecordValid => "trigger.record_valid_condition"
  | .trClearValid => "trigger.clear_valid_conditions"
  | .trStoreLastCron => "trigger.store_last_cron_execution"
  | .trClaimRun => "trigger.claim_trigger_run"
  | .trEmitEvent => "trigger.emit_event"
  | .trPurge => "trigger.purge"
  | .cdsDeserializeArgs => "client_data_store.deserialize_arguments"
  | .cdsResolve => "client_data_store.resolve"
  | .cdsIsReference => "client_data_store.is_reference"
  | .cdsSerializeArgs => "client_data_store.serialize_arguments"
  | .cdsSerialize => "client_data_store.serialize"
  | .cdsPurge => "client_data_store.purge"

/-- every method of the model -/
def Method.all : List Method :=
  [.brokerCount, .brokerRetrieve, .brokerRoute, .brokerRouteMany, .brokerPurge,
   .orchCount, .orchActiveRunners, .orchBlocking, .orchExisting, .orchStatus, .orchStatusRecord, .orchRetries,
   .orchIdsPaginated, .orchTaskIds, .orchCallIds, .orchFilterByStatus, .orchFilterFinal,
   .orchSetStatus, .orchSetResult, .orchSetException, .orchSetRetry, .orchIncRetries, .orchRegisterNew,
   .orchRouteCall, .orchRouteCalls, .orchReroute, .orchInvocationsToRun, .orchHeartbeats, .orchRecordAtomic,
   .orchWaitingFor, .orchReleaseWaiters, .orchSetUpAutoPurge, .orchAutoPurge, .orchPurge,
   .sbGetInvocation, .sbGetHistory, .sbGetResult, .sbGetException, .sbGetRunnerContext, .sbGetRunnerContexts,
   .sbMatchingRunnerContexts, .sbChildren, .sbWorkflowTypes, .sbAllWorkflowRuns, .sbWorkflowRuns,
   .sbWorkflowSubs, .sbWorkflowData, .sbIdsByWorkflow, .sbIterHistory, .sbIterInvocations,
   .sbUpsert, .sbAddHistory, .sbAddHistories, .sbSetResult, .sbSetException, .sbStoreRunnerContext,
   .sbStoreWorkflowRun, .sbStoreWorkflowSub, .sbSetWorkflowData, .sbPurge,
   .trGetCondition, .trGetTrigger, .trTriggersForCondition, .trConditionsFromTask, .trValidConditions, .trLastCron,
   .trRegisterCondition, .trRegisterTrigger, .trRecordValid, .trClearValid, .trStoreLastCron, .trClaimRun,
   .trEmitEvent, .trPurge,
   .cdsDeserializeArgs, .cdsResolve, .cdsIsReference, .cdsSerializeArgs, .cdsSerialize, .cdsPurge]

def Method.ofName? (n : String) : Option Method := Method.all.find? (fun m => m.name == n)

/-- THE hand-written classification table: does the method only observe? -/
def Method.kind : Method → Kind
  | .brokerCount => .readOnly
  | .orchCount | .orchActiveRunners | .orchBlocking | .orchExisting | .orchStatus | .orchStatusRecord
  | .orchRetries | .orchIdsPaginated | .orchTaskIds | .orchCallIds | .orchFilterByStatus | .orchFilterFinal => .readOnly
  | .sbGetInvocation | .sbGetHistory | .sbGetResult | .sbGetException | .sbGetRunnerContext | .sbGetRunnerContexts
  | .sbMatchingRunnerContexts | .sbChildren | .sbWorkflowTypes | .sbAllWorkflowRuns | .sbWorkflowRuns
  | .sbWorkflowSubs | .sbWorkflowData | .sbIdsByWorkflow | .sbIterHistory | .sbIterInvocations => .readOnly
  | .trGetCondition | .trGetTrigger | .trTriggersForCondition | .trConditionsFromTask | .trValidConditions
  | .trLastCron => .readOnly
  | .cdsDeserializeArgs | .cdsResolve | .cdsIsReference => .readOnly
  | .brokerRetrieve | .brokerRoute | .brokerRouteMany | .brokerPurge => .mutating
  | .orchSetStatus | .orchSetResult | .orchSetException | .orchSetRetry | .orchIncRetries | .orchRegisterNew
  | .orchRouteCall | .orchRouteCalls | .orchReroute | .orchInvocationsToRun | .orchHeartbeats | .orchRecordAtomic
  | .orchWaitingFor | .orchReleaseWaiters | .orchSetUpAutoPurge | .orchAutoPurge | .orchPurge => .mutating
  | .sbUpsert | .sbAddHistory | .sbAddHistories | .sbSetResult | .sbSetException | .sbStoreRunnerContext
  | .sbStoreWorkflowRun | .sbStoreWorkflowSub | .sbSetWorkflowData | .sbPurge => .mutating
  | .trRegisterCondition | .trRegisterTrigger | .trRecordValid | .trClearValid | .trStoreLastCron | .trClaimRun
  | .trEmitEvent | .trPurge => .mutating
  | .cdsSerializeArgs | .cdsSerialize | .cdsPurge => .mutating

/-- classification of a python name; a name the model does not know is NOT read-only -/
def isReadOnlyName (n : String) : Bool :=
  match Method.ofName? n with
  | some m => m.kind == .readOnly
  | none => false

def kindOfName (n : String) : String :=
  match Method.ofName? n with
  | some m => if m.kind == .readOnly then "ro" else "mut"
  | none => "unknown"

/-! ### semantics of the methods -/

def finals : List String := ["success", "failed", "concurrency_controlled_final"]

/-- `broker.retrieve_invocation`: pop the oldest message -/
def retrieve (s : Sys) : Sys × Option String :=
  match s.queue with
  | [] => (s, none)
  | x :: rest => ({ s with queue := rest }, some x)

/-- `broker.route_invocation`: append -/
def route (s : Sys) (i : String) : Sys := { s with queue := s.queue ++ [i] }

def routeAll (ids : List String) (s : Sys) : Sys := ids.foldl route s

def hasRecord (s : Sys) (i : String) : Bool := s.records.has i

def writeStatus (s : Sys) (i st : String) (owner : Option String) (t : Int) : Sys :=
  { s with status := s.status.set i { status := st, owner := owner, ts := t },
           history := s.history ++ [{ id := i, status := st, runner := owner, ts := t }] }

def registerOne (s : Sys) (i : String) (a : Args) : Sys :=
  let s1 := { s with records := s.records.set i { parent := none, task := a.val, call := a.id2, wf := i } }
  route (writeStatus s1 i "registered" a.owner a.n) i

def optStr (o : Option String) : Res := .opt o

/-- the effect and the answer of one component call -/
def exec (m : Method) (a : Args) (s : Sys) : Sys × Res :=
  match m with
  -- broker
  | .brokerCount => (s, .num s.queue.length)
  | .brokerRetrieve => let r := retrieve s; (r.1, .opt r.2)
  | .brokerRoute => (route s a.id, .unit)
  | .brokerRouteMany => (routeAll a.ids s, .unit)
  | .brokerPurge => ({ s with queue := [] }, .unit)
  -- orchestrator reads
  | .orchCount => (s, .num (s.status.filter (fun p => a.ids.isEmpty || a.ids.contains p.2.status)).length)
  | .orchActiveRunners => (s, .list ((s.heartbeats.filter (fun p => a.n ≤ p.2.last)).map (·.1)))
  | .orchBlocking => (s, .list ((s.waits.map (·.2)).take a.n.toNat))
  | .orchExisting =>
    (s, .list ((s.status.filter (fun p => a.ids.isEmpty || a.ids.contains p.2.status)).map (·.1)))
  | .orchStatus =>
    (s, match s.status.get? a.id with | some r => .opt (some r.status) | none => .raised "KeyError")
  | .orchStatusRecord =>
    (s, match s.status.get? a.id with | some r => .opt (some r.status) | none => .raised "KeyError")
  | .orchRetries => (s, .num ((s.retries.get? a.id).getD 0))
  | .orchIdsPaginated => (s, .list (((s.status.map (·.1)).drop a.n.toNat).take 100))
  | .orchTaskIds => (s, .list ((s.records.filter (fun p => p.2.task == a.val)).map (·.1)))
  | .orchCallIds => (s, .list ((s.records.filter (fun p => p.2.call == a.val)).map (·.1)))
  | .orchFilterByStatus =>
    (s, .list (a.ids.filter fun i => match s.status.get? i with | some r => r.status == a.val | none => false))
  | .orchFilterFinal =>
    (s, .list (a.ids.filter fun i => match s.status.get? i with | some r => finals.contains r.status | none => false))
  -- orchestrator writes
  | .orchSetStatus =>
    if s.status.has a.id then (writeStatus s a.id a.val a.owner a.n, .unit) else (s, .raised "KeyError")
  | .orchSetResult =>
    let s1 := { s with results := s.results.set a.id a.val }
    (writeStatus s1 a.id "success" none a.n, .unit)
  | .orchSetException =>
    let s1 := { s with exceptions := s.exceptions.set a.id a.val }
    (writeStatus s1 a.id "failed" none a.n, .unit)
  | .orchSetRetry =>
    let s1 := { s with retries := s.retries.set a.id ((s.retries.get? a.id).getD 0 + 1) }
    (route (writeStatus s1 a.id "retry" none a.n) a.id, .unit)
  | .orchIncRetries => ({ s with retries := s.retries.set a.id ((s.retries.get? a.id).getD 0 + 1) }, .unit)
  | .orchRegisterNew => (a.ids.foldl (fun acc i => writeStatus acc i "registered" a.owner a.n) s, .unit)
  | .orchRouteCall => (registerOne s a.id a, .opt (some a.id))
  | .orchRouteCalls => (a.ids.foldl (fun acc i => registerOne acc i a) s, .list a.ids)
  | .orchReroute => (a.ids.foldl (fun acc i => route (writeStatus acc i "rerouted" none a.n) i) s, .unit)
  | .orchInvocationsToRun =>
    match retrieve s with
    | (s1, some i) => (writeStatus s1 i "pending" a.owner a.n, .list [i])
    | (s1, none) => (s1, .list [])
  | .orchHeartbeats =>
    (a.ids.foldl (fun acc r =>
        let hb : Heartbeat := match acc.heartbeats.get? r with
          | some h => { h with last := a.n, atomic := a.flag }
          | none => { created := a.n, last := a.n, atomic := a.flag, svcStart := none, svcEnd := none }
        { acc with heartbeats := acc.heartbeats.set r hb }) s, .unit)
  | .orchRecordAtomic =>
    let hb : Heartbeat := match s.heartbeats.get? a.id with
      | some h => { h with svcStart := some a.n, svcEnd := some (a.n + 1) }
      | none => { created := a.n, last := a.n, atomic := true, svcStart := some a.n, svcEnd := some (a.n + 1) }
    ({ s with heartbeats := s.heartbeats.set a.id hb }, .unit)
  | .orchWaitingFor => ({ s with waits := s.waits ++ a.ids.map (fun w => (a.id, w)) }, .unit)
  | .orchReleaseWaiters => ({ s with waits := s.waits.filter (fun p => p.2 != a.id) }, .unit)
  | .orchSetUpAutoPurge => ({ s with autoPurge := s.autoPurge ++ [(a.n, a.id)] }, .unit)
  | .orchAutoPurge =>
    let gone := (s.autoPurge.filter (fun p => p.1 ≤ a.n)).map (·.2)
    ({ s with autoPurge := s.autoPurge.filter (fun p => ¬ p.1 ≤ a.n),
              status := s.status.filter (fun p => ¬ gone.contains p.1),
              retries := s.retries.filter (fun p => ¬ gone.contains p.1) }, .unit)
  | .orchPurge => ({ s with status := [], retries := [], heartbeats := [], waits := [], autoPurge := [] }, .unit)
  -- state backend reads
  | .sbGetInvocation =>
    (s, match s.records.get? a.id with | some r => .opt (some r.task) | none => .raised "InvocationNotFoundError")
  | .sbGetHistory => (s, .list ((s.history.filter (·.id == a.id)).map (·.status)))
  | .sbGetResult =>
    (s, match s.results.get? a.id with | some r => .opt (some r) | none => .raised "KeyError")
  | .sbGetException =>
    (s, match s.exceptions.get? a.id with | some r => .opt (some r) | none => .raised "KeyError")
  | .sbGetRunnerContext => (s, .opt (s.runnerCtx.get? a.id))
  | .sbGetRunnerContexts => (s, .list (a.ids.filterMap s.runnerCtx.get?))
  | .sbMatchingRunnerContexts => (s, .list ((s.runnerCtx.filter (fun p => a.val.isPrefixOf p.1)).map (·.1)))
  | .sbChildren => (s, .list ((s.records.filter (fun p => p.2.parent == some a.id)).map (·.1)))
  | .sbWorkflowTypes => (s, .list (dedup (s.wfRuns.map (·.1))))
  | .sbAllWorkflowRuns => (s, .list (s.wfRuns.map (·.2)))
  | .sbWorkflowRuns => (s, .list ((s.wfRuns.filter (·.1 == a.val)).map (·.2)))
  | .sbWorkflowSubs => (s, .list ((s.wfSubs.filter (·.1 == a.id)).map (·.2)))
  | .sbWorkflowData => (s, .opt (some ((s.wfData.get? (a.id, a.val)).getD a.id2)))
  | .sbIdsByWorkflow => (s, .list ((s.records.filter (fun p => p.2.wf == a.id)).map (·.1)))
  | .sbIterHistory => (s, .list ((s.history.filter (fun h => a.n ≤ h.ts)).map (·.id)))
  | .sbIterInvocations => (s, .list (dedup ((s.history.filter (fun h => a.n ≤ h.ts)).map (·.id))))
  -- state backend writes
  | .sbUpsert =>
    (a.ids.foldl (fun acc i =>
        { acc with records := acc.records.set i { parent := a.owner, task := a.val, call := a.id2, wf := a.id } }) s, .unit)
  | .sbAddHistory => ({ s with history := s.history ++ [{ id := a.id, status := a.val, runner := a.owner, ts := a.n }] }, .unit)
  | .sbAddHistories =>
    ({ s with history := s.history ++ a.ids.map (fun i => { id := i, status := a.val, runner := a.owner, ts := a.n }) }, .unit)
  | .sbSetResult => ({ s with results := s.results.set a.id a.val }, .unit)
  | .sbSetException => ({ s with exceptions := s.exceptions.set a.id a.val }, .unit)
  | .sbStoreRunnerContext => ({ s with runnerCtx := s.runnerCtx.set a.id a.val }, .unit)
  | .sbStoreWorkflowRun => ({ s with wfRuns := if s.wfRuns.contains (a.val, a.id) then s.wfRuns else s.wfRuns ++ [(a.val, a.id)] }, .unit)
  | .sbStoreWorkflowSub => ({ s with wfSubs := if s.wfSubs.contains (a.id, a.id2) then s.wfSubs else s.wfSubs ++ [(a.id, a.id2)] }, .unit)
  | .sbSetWorkflowData => ({ s with wfData := s.wfData.set (a.id, a.id2) a.val }, .unit)
  | .sbPurge =>
    ({ s with records := [], results := [], exceptions := [], history := [], runnerCtx := [], wfRuns := [], wfSubs := [],
              wfData := [] }, .unit)
  -- trigger reads
  | .trGetCondition => (s, .opt (s.conditions.get? a.id))
  | .trGetTrigger => (s, .opt (s.triggerDefs.get? a.id))
  | .trTriggersForCondition => (s, .list ((s.triggerDefs.filter (fun p => p.2 == a.id)).map (·.1)))
  | .trConditionsFromTask => (s, .list ((s.conditions.filter (fun p => p.2 == a.val)).map (·.1)))
  | .trValidConditions => (s, .list (s.validConds.map (·.1)))
  | .trLastCron => (s, match s.cronLast.get? a.id with | some t => .num t | none => .opt none)
  -- trigger writes
  | .trRegisterCondition => ({ s with conditions := s.conditions.set a.id a.val }, .unit)
  | .trRegisterTrigger => ({ s with triggerDefs := s.triggerDefs.set a.id a.val }, .unit)
  | .trRecordValid => ({ s with validConds := s.validConds.set a.id a.val }, .unit)
  | .trClearValid => ({ s with validConds := s.validConds.filter (fun p => ¬ a.ids.contains p.1) }, .unit)
  | .trStoreLastCron =>
    if (s.cronLast.get? a.id) == (if a.flag then some (a.n - 1) else none) ∨ ¬ a.flag
    then ({ s with cronLast := s.cronLast.set a.id a.n }, .num 1) else (s, .num 0)
  | .trClaimRun =>
    if s.runClaims.has a.id then (s, .num 0) else ({ s with runClaims := s.runClaims.set a.id a.n }, .num 1)
  | .trEmitEvent => ({ s with validConds := s.validConds.set ("event#" ++ a.id) a.val }, .opt (some a.id))
  | .trPurge => ({ s with conditions := [], triggerDefs := [], validConds := [], cronLast := [], runClaims := [] }, .unit)
  -- client data store
  | .cdsDeserializeArgs =>
    (s, if a.ids.all (fun k => ¬ k.startsWith "__pynenc__" ∨ s.cds.has k) then .list (a.ids.map fun k => (s.cds.get? k).getD k)
        else .raised "KeyError")
  | .cdsResolve =>
    (s, if a.id.startsWith "__pynenc__" then (match s.cds.get? a.id with | some v => .opt (some v) | none => .raised "KeyError")
        else .opt (some a.id))
  | .cdsIsReference => (s, .num (if a.id.startsWith "__pynenc__" then 1 else 0))
  | .cdsSerializeArgs =>
    (a.ids.foldl (fun acc v => if a.n ≤ v.length then { acc with cds := acc.cds.set ("__pynenc__" ++ v) v } else acc) s, .list a.ids)
  | .cdsSerialize =>
    (if a.n ≤ a.val.length then { s with cds := s.cds.set ("__pynenc__" ++ a.val) a.val } else s, .opt (some a.val))
  | .cdsPurge => ({ s with cds := [] }, .unit)

/-! ### request handlers as adaptive call sequences -/

/-- what a handler does to the backends: nothing more (`done`), raise (`fail`), or one more call whose
    answer decides how it goes on -/
inductive Prog where
  | done : Prog
  | fail : Prog
  | call : Method → Args → (Res → Prog) → Prog

def Prog.run : Prog → Sys → Sys
  | .done, s => s
  | .fail, s => s
  | .call m a k, s => (k (exec m a s).2).run (exec m a s).1

/-- every call the program can ever make (whatever the answers) satisfies `ok` -/
inductive Prog.Within (ok : Method → Prop) : Prog → Prop
  | done : Prog.Within ok .done
  | fail : Prog.Within ok .fail
  | call {m : Method} {a : Args} {k : Res → Prog} : ok m → (∀ r, Prog.Within ok (k r)) → Prog.Within ok (.call m a k)

/-- one row of the generated route table: `calls` are the reachable component methods the model knows (the
    translator maps python names through `Method.name`), `unknown` the reachable python names it does not know -/
structure Handler where
  route   : String
  method  : String
  name    : String
  calls   : List Method
  unknown : List String := []
  deriving DecidableEq, Repr

/-- every reachable method is classified read-only (a name the model does not know is NOT read-only) -/
def Handler.readOnly (h : Handler) : Bool := h.unknown.isEmpty && h.calls.all (fun m => m.kind == .readOnly)

/-- GET handlers that are allowed to reach mutating methods, with the mutating methods each may reach.
    `queue_view` pops and re-routes because the broker has no peek; it has its own theorem. -/
def getExceptions : List (String × List Method) :=
  [("pynmon.views.broker.queue_view", [.brokerRetrieve, .brokerRoute])]

def Handler.isException (h : Handler) : Bool := getExceptions.any (fun e => e.1 == h.name)

/-- a GET handler obeys the discipline: read-only, or a listed exception whose non-read-only calls are among
    the ones listed for it -/
def Handler.getOk (h : Handler) : Bool :=
  h.method != "GET" ||
  match getExceptions.find? (fun e => e.1 == h.name) with
  | none => h.readOnly
  | some e => h.unknown.isEmpty && h.calls.all (fun c => c.kind == .readOnly || e.2.contains c)

/-! ### the queue page -/

inductive QVOut where
  | ok (displayed total : Nat)
  | failed (missingId : String)
  deriving DecidableEq, Repr

/-- `for _ in range(n): id = retrieve(); if id is None: break; queued_ids.append(id)` -/
def drain : Nat → Sys → List String → Sys × List String
  | 0, s, acc => (s, acc)
  | n + 1, s, acc =>
    match retrieve s with
    | (s', none) => (s', acc)
    | (s', some i) => drain n s' (acc ++ [i])

def firstMissing (s : Sys) : List String → Option String
  | [] => none
  | i :: rest => if hasRecord s i then firstMissing s rest else some i

/-- current `queue_view(limit)`: drain the whole queue, route everything back (in a `finally`), then load the
    records of the first `max(limit, 0)` ids; the first missing record makes the page fail. -/
def queueView (limit : Int) (s : Sys) : Sys × QVOut :=
  let n := s.queue.length
  let d := drain n s []
  let s2 := routeAll d.2 d.1
  let shown := d.2.take (max limit 0).toNat
  (s2, match firstMissing s2 shown with
       | none => .ok shown.length n
       | some i => .failed i)

/-- the same handler when the broker itself raises inside the drain loop after `k` successful pops
    (an infrastructure fault, not a state of the system): the `finally` still routes the popped ids back. -/
def queueViewFault (k : Nat) (s : Sys) : Sys :=
  let d := drain (min k s.queue.length) s []
  routeAll d.2 d.1

/-- loop of the handler before the repair: `for _ in range(min(limit, n)): if id := retrieve(): pending.append(get_invocation(id))` -/
def oldLoop : Nat → Sys → List String → Sys × List String × Option String
  | 0, s, acc => (s, acc, none)
  | k + 1, s, acc =>
    match retrieve s with
    | (s', none) => oldLoop k s' acc
    | (s', some i) => if hasRecord s' i then oldLoop k s' (acc ++ [i]) else (s', acc, some i)

/-- `queue_view(limit)` before the repair -/
def queueViewOld (limit : Int) (s : Sys) : Sys × QVOut :=
  let n := s.queue.length
  let r := oldLoop (min limit n).toNat s []
  match r.2.2 with
  | some i => (r.1, .failed i)
  | none => (routeAll r.2.1 r.1, .ok r.2.1.length n)

end Pynenc.Monitor
