import PynencModel.Model.Status
/-
  L2 model used by C06: invocations carry a concurrency key (`none` = task without running concurrency
  control); runners claim through the candidate check.  Two granularities:
  * `StepAtomic` — candidate check and claim are one atomic step (one poller at a time);
  * the real code checks and claims in separate steps — the refutation in Props/C06.lean runs the
    executable model (`Model/Concurrency.lean`) through the two-poller interleaving.
-/
namespace Pynenc.Keyed
open Pynenc

structure Sys (K : Type) where
  recs : String → Option SRec
  key  : String → Option K

def upd {α β : Type} [DecidableEq α] (f : α → β) (k : α) (v : β) : α → β := fun j => if j = k then v else f j

/-- PENDING or RUNNING: what the candidate check looks for -/
def active {K : Type} (s : Sys K) (i : String) : Prop :=
  ∃ c, s.recs i = some c ∧ (c.status = .pending ∨ c.status = .running)

/-- the candidate check of `i`: no *other* invocation with the same key is PENDING or RUNNING
    (the invocation itself is in an available status when it is checked) -/
def Candidate {K : Type} (s : Sys K) (i : String) : Prop :=
  ∀ j, j ≠ i → s.key j = s.key i → s.key i ≠ none → ¬ active s j

inductive StepAtomic {K : Type} (T : Table) : Sys K → Sys K → Prop where
  /-- check-and-claim as one step -/
  | claim (s : Sys K) (i : String) (rid : Option String) (c r : SRec) :
      s.recs i = some c → Candidate s i → step T (some c) .pending rid = .ok r →
      StepAtomic T s { s with recs := upd s.recs i (some r) }
  /-- any other accepted status change (start, finish, retry, kill, recovery, reroute, concurrency-controlled…) -/
  | other (s : Sys K) (i : String) (req : Status) (rid : Option String) (c r : SRec) :
      s.recs i = some c → req ≠ .pending → step T (some c) req rid = .ok r →
      StepAtomic T s { s with recs := upd s.recs i (some r) }
  /-- a new invocation is registered (any key) -/
  | register (s : Sys K) (i : String) (k : Option K) (rid : Option String) :
      s.recs i = none →
      StepAtomic T s { recs := upd s.recs i (some ⟨.registered, rid⟩), key := upd s.key i k }

inductive Reach {K : Type} (T : Table) (s0 : Sys K) : Sys K → Prop where
  | refl : Reach T s0 s0
  | step (s s' : Sys K) : Reach T s0 s → StepAtomic T s s' → Reach T s0 s'

/-! ### the real granularity: check and act are separate steps -/

structure SysS (K : Type) where
  recs    : String → Option SRec
  key     : String → Option K
  /-- the poller holding `i` has passed the candidate check and not yet requested PENDING -/
  checked : String → Bool
  /-- the worker holding `i` has passed the authorisation check and not yet requested RUNNING -/
  authed  : String → Bool

def SysS.base {K : Type} (s : SysS K) : Sys K := { recs := s.recs, key := s.key }

/-- the authorisation check of `i`: no other invocation with the same key is RUNNING -/
def Authorised {K : Type} (s : Sys K) (i : String) : Prop :=
  ∀ j, j ≠ i → s.key j = s.key i → s.key i ≠ none → ¬ ∃ c, s.recs j = some c ∧ c.status = .running

inductive StepSplit {K : Type} (T : Table) : SysS K → SysS K → Prop where
  | check (s : SysS K) (i : String) : Candidate s.base i → StepSplit T s { s with checked := upd s.checked i true }
  | claim (s : SysS K) (i : String) (rid : Option String) (c r : SRec) :
      s.checked i = true → s.recs i = some c → step T (some c) .pending rid = .ok r →
      StepSplit T s { s with recs := upd s.recs i (some r), checked := upd s.checked i false }
  | auth (s : SysS K) (i : String) : Authorised s.base i → StepSplit T s { s with authed := upd s.authed i true }
  | start (s : SysS K) (i : String) (rid : Option String) (c r : SRec) :
      s.authed i = true → s.recs i = some c → step T (some c) .running rid = .ok r →
      StepSplit T s { s with recs := upd s.recs i (some r), authed := upd s.authed i false }

inductive ReachSplit {K : Type} (T : Table) (s0 : SysS K) : SysS K → Prop where
  | refl : ReachSplit T s0 s0
  | step (s s' : SysS K) : ReachSplit T s0 s → StepSplit T s s' → ReachSplit T s0 s'

end Pynenc.Keyed
