/-
  The status index of the in-memory orchestrator during one accepted transition a → b of an invocation, beside any number of
  read-side scans (core Lean only) — C01.

  `_interanl_atomic_status_transition` updates the index first (discard from the old status' set, add to the new one's) and writes
  the record last.  The scans (`get_pending_invocations_for_recovery`, the listing, the count, the concurrency lookup) run without
  the invocation's lock, so they can see the index ahead of the record.  They only read.  `Variant.repair` is a scan that drops
  from an index set the ids whose record shows another status.
-/
namespace Pynenc.IndexScan

structure S where
  /-- the record shows the new status -/
  recB  : Bool
  inA   : Bool
  inB   : Bool
  /-- steps of the transition done so far: 0 … 3 -/
  phase : Nat
  deriving DecidableEq, Repr

inductive Variant where
  | readOnly
  | repair
  deriving DecidableEq, Repr

def init : S := { recB := false, inA := true, inB := false, phase := 0 }

inductive Step (v : Variant) : S → S → Prop where
  | discardOld (s : S) : s.phase = 0 → Step v s { s with inA := false, phase := 1 }
  | addNew (s : S) : s.phase = 1 → Step v s { s with inB := true, phase := 2 }
  | writeRecord (s : S) : s.phase = 2 → Step v s { s with recB := true, phase := 3 }
  /-- a scan of the set of the old / of the new status: reads -/
  | scan (s : S) : Step v s s
  /-- the repairing scan of the new status' set: an id whose record does not show that status is dropped -/
  | repairB (s : S) : v = .repair → s.inB = true → s.recB = false → Step v s { s with inB := false }
  | repairA (s : S) : v = .repair → s.inA = true → s.recB = true → Step v s { s with inA := false }

inductive Reach (v : Variant) : S → Prop where
  | init : Reach v init
  | step (s s' : S) : Reach v s → Step v s s' → Reach v s'

/-- once the transition has returned, the invocation is listed under exactly its recorded status -/
def Consistent (s : S) : Prop := s.phase = 3 → (s.recB = true ∧ s.inB = true ∧ s.inA = false)

end Pynenc.IndexScan
