import PynencModel.Model.Basic
/-
  Wait-graph ("blocking control") of the orchestrator — C09, part A.

  * `MemBC`  : `MemBlockingControl` of `pynenc/orchestrator/mem_orchestrator.py`, line by line:
               `waiting_for` (dict id -> set), `waited_by` (OrderedDict id -> set), and the
               incrementally maintained `_ready` set.  Python sets are duplicate-free lists here
               (`sadd` / `sdel`); the iteration order of `_ready` is unspecified in Python, the model
               uses insertion order and every statement about results is order-free.
  * `SqlBC`  : `SQLiteBlockingControl` of `sqlite_orchestrator.py`: the rows of
               `<prefix>__orchestrator_blocking_edges` with primary key (waiter_id, waited_id).
  * `Ref`    : the specification — which wait declarations are still standing.
  * `Op`     : the public operations as `BaseOrchestrator` exposes them
               (`waiting_for_results` returns early on an empty list, `release_waiters`;
               `set_invocation_status(final)` = status write + `release_waiters`).

  Core Lean only.  Ids are any type with decidable equality (strings in the driver).
-/
namespace Pynenc.Blocking

variable {α : Type} [DecidableEq α]

/-! ### Python `set` as a duplicate-free list -/

/-- `s.add(x)` -/
def sadd (l : List α) (x : α) : List α := if x ∈ l then l else l ++ [x]

/-- `s.discard(x)` -/
def sdel (l : List α) (x : α) : List α := l.filter (· ≠ x)

/-- `d.get(k, [])` / reading a `defaultdict(set)` entry -/
def look (m : AMap α (List α)) (k : α) : List α := (m.get? k).getD []

/-! ### in-memory blocking control -/

structure MemBC (α : Type) where
  waitingFor : AMap α (List α) := []
  waitedBy   : AMap α (List α) := []
  ready      : List α := []
  deriving Repr

/-- body of the `for waited_id in result_invocation_ids` loop of `waiting_for_results` -/
def waitOne (w : α) (s : MemBC α) (x : α) : MemBC α :=
  -- self.waiting_for[waiter_id].add(waited_id)
  let wf := s.waitingFor.set w (sadd (look s.waitingFor w) x)
  -- if waited_id not in self.waited_by: self.waited_by[waited_id] = set()
  -- self.waited_by[waited_id].add(waiter_id)
  let wb := s.waitedBy.set x (sadd (look s.waitedBy x) w)
  -- if waited_id not in self.waiting_for: self._ready.add(waited_id)
  let rd := if wf.has x then s.ready else sadd s.ready x
  { waitingFor := wf, waitedBy := wb, ready := rd }

/-- `MemBlockingControl.waiting_for_results(waiter, ids)` (the raw method: it also runs on `[]`) -/
def memWaitRaw (s : MemBC α) (w : α) (ids : List α) : MemBC α :=
  let s' := ids.foldl (waitOne w) s
  -- self._ready.discard(waiter_id)
  { s' with ready := sdel s'.ready w }

/-- body of the `for waiter_id in self.waited_by.get(x, [])` loop of `release_waiters` -/
def releaseOne (x : α) (s : MemBC α) (w : α) : MemBC α :=
  -- self.waiting_for[waiter_id].discard(x)      (defaultdict: a missing key reads as the empty set)
  let rem := sdel (look s.waitingFor w) x
  if rem = [] then
    -- del self.waiting_for[waiter_id]; if waiter_id in self.waited_by: self._ready.add(waiter_id)
    { s with waitingFor := s.waitingFor.erase w,
             ready := if s.waitedBy.has w then sadd s.ready w else s.ready }
  else
    { s with waitingFor := s.waitingFor.set w rem }

/-- `MemBlockingControl.release_waiters(x)` -/
def memRelease (s : MemBC α) (x : α) : MemBC α :=
  let s' := (look s.waitedBy x).foldl (releaseOne x) s
  -- self.waited_by.pop(x, None); self.waiting_for.pop(x, None); self._ready.discard(x)
  { waitingFor := s'.waitingFor.erase x, waitedBy := s'.waitedBy.erase x, ready := sdel s'.ready x }

/-- the `for inv_id in candidates` loop of `get_blocking_invocations`, counter included
    (`n` is `max_num_invocations`, decremented before each yield, `return` when it reaches 0) -/
def scan (avail : α → Bool) : List α → Int → List α
  | [], _ => []
  | x :: xs, n =>
    if avail x then x :: (if n - 1 = 0 then [] else scan avail xs (n - 1))
    else scan avail xs n

/-- `MemBlockingControl.get_blocking_invocations(limit)`; `avail x` = "the orchestrator's status of
    `x` is available for run" -/
def memBlocking (s : MemBC α) (limit : Int) (avail : α → Bool) : List α :=
  if limit ≤ 0 then [] else scan avail s.ready limit

/-- every candidate the in-memory control would report with an unbounded limit -/
def memBlockingAll (s : MemBC α) (avail : α → Bool) : List α := s.ready.filter avail

/-! ### SQLite blocking control -/

/-- rows (waiter_id, waited_id), in rowid order -/
abbrev SqlBC (α : Type) := List (α × α)

/-- `INSERT OR IGNORE` of one row per awaited id -/
def sqlWait (e : SqlBC α) (w : α) (ids : List α) : SqlBC α :=
  ids.foldl (fun e x => if (w, x) ∈ e then e else e ++ [(w, x)]) e

/-- `DELETE ... WHERE waited_id = x` : only the edges *into* `x` -/
def sqlRelease (e : SqlBC α) (x : α) : SqlBC α := e.filter (fun p => p.2 ≠ x)

/-- `SELECT DISTINCT waited_id ... WHERE waited_id NOT IN (SELECT waiter_id ...) AND status IN (...)` -/
def sqlBlockingAll (e : SqlBC α) (avail : α → Bool) : List α :=
  dedup ((e.map (·.2)).filter (fun x => !(e.map (·.1)).contains x && avail x))

/-- `... LIMIT max(limit, 0)` -/
def sqlBlocking (e : SqlBC α) (limit : Int) (avail : α → Bool) : List α :=
  (sqlBlockingAll e avail).take limit.toNat

/-! ### public operations and histories -/

inductive Op (α : Type) where
  /-- `orchestrator.waiting_for_results(waiter, ids)` -/
  | wait (w : α) (ids : List α)
  /-- `orchestrator.release_waiters(x)` — called by `set_invocation_status` on every final status -/
  | release (x : α)
  deriving Repr, DecidableEq

/-- `BaseOrchestrator.waiting_for_results`: an empty list is logged and ignored -/
def memStep (s : MemBC α) : Op α → MemBC α
  | .wait w ids => if ids = [] then s else memWaitRaw s w ids
  | .release x => memRelease s x

def sqlStep (e : SqlBC α) : Op α → SqlBC α
  | .wait w ids => if ids = [] then e else sqlWait e w ids
  | .release x => sqlRelease e x

def memRun (h : List (Op α)) : MemBC α := h.foldl memStep {}
def sqlRun (h : List (Op α)) : SqlBC α := h.foldl sqlStep []

/-- ids that have been released somewhere in the history -/
def released : List (Op α) → List α
  | [] => []
  | .wait _ _ :: h => released h
  | .release x :: h => x :: released h

/-! ### specification: the wait declarations still standing -/

/-- `g w x = true` : `w` has declared that it waits on `x`, and `x` has not finished since -/
abbrev Ref (α : Type) := α → α → Bool

def refStep (g : Ref α) : Op α → Ref α
  | .wait w ids => fun a b => g a b || (decide (a = w) && ids.contains b)
  | .release x => fun a b => g a b && !decide (b = x)

def refRun (h : List (Op α)) : Ref α := h.foldl refStep (fun _ _ => false)

/-- the property text: reported as blocking ⇔ somebody has declared it waits on `x` (and `x` has
    not finished), `x` is not itself waiting on anything, and `x` is in a runnable status -/
def SpecBlocking (g : Ref α) (avail : α → Bool) (x : α) : Prop :=
  (∃ w, g w x = true) ∧ (∀ z, g x z = false) ∧ avail x = true

end Pynenc.Blocking
