import PynencModel.Model.Basic
import PynencModel.Model.Status
/-
  L1 model of the orchestrator: what `MemOrchestrator` and `SQLiteOrchestrator` both implement.
  Status store (`_register_new_invocations`, `_atomic_status_transition`, `get_invocation_status_record`),
  task / call / argument indexes (`get_existing_invocations`, `index_arguments_for_concurrency_control`),
  retries, runner heartbeats (`register_runner_heartbeats`, `_get_active_runners`) and the two recovery scans.
  Timestamps are integers (µs of the controlled clock).  Core Lean only.
-/
namespace Pynenc

structure ORec where
  status : Status
  owner  : Option String
  ts     : Int
  deriving DecidableEq, Repr

def ORec.srec (r : ORec) : SRec := { status := r.status, owner := r.owner }

inductive SetErr where
  | status (e : StatusErr)
  | unknownId        -- KeyError of the base-class contract
  deriving DecidableEq, Repr

/-- what the orchestrator knows about an invocation besides its status -/
structure InvInfo where
  task : String
  call : String
  args : List (String × String)      -- serialized arguments (key, serialized value)
  deriving DecidableEq, Repr

structure HB where
  created  : Int
  last     : Int
  eligible : Bool
  deriving DecidableEq, Repr

structure Orch where
  recs    : AMap String ORec := []
  info    : AMap String InvInfo := []
  /-- argument index: (invocation, key, value) rows written by `index_arguments_for_concurrency_control` -/
  argIdx  : List (String × String × String) := []
  retries : AMap String Nat := []
  hb      : AMap String HB := []
  deriving Repr

namespace Orch

def get (o : Orch) (id : String) : Option ORec := o.recs.get? id

/-- `_register_new_invocations` for one id: writes (REGISTERED, runner, now) unless the id exists
    (SQLite `ON CONFLICT DO NOTHING`; the in-memory orchestrator overwrites — callers never
    register an existing id, the correspondence harness does not either). -/
def register (o : Orch) (id : String) (rid : Option String) (now : Int) : Orch :=
  if o.recs.has id then o
  else { o with recs := o.recs.set id { status := .registered, owner := rid, ts := now } }

/-- registration with the task / call / arguments the orchestrator records for its indexes -/
def registerInv (o : Orch) (id : String) (inf : InvInfo) (rid : Option String) (now : Int) : Orch :=
  if o.recs.has id then o
  else { (o.register id rid now) with info := o.info.set id inf, retries := o.retries.set id 0 }

/-- `_atomic_status_transition`: read, validate, write one record; on error nothing changes. -/
def setStatus (T : Table) (o : Orch) (id : String) (req : Status) (rid : Option String) (now : Int) :
    Orch × Except SetErr ORec :=
  match o.get id with
  | none => (o, .error .unknownId)
  | some cur =>
    match step T (some cur.srec) req rid with
    | .error e => (o, .error (.status e))
    | .ok r =>
      let nr : ORec := { status := r.status, owner := r.owner, ts := now }
      ({ o with recs := o.recs.set id nr }, .ok nr)

/-- `index_arguments_for_concurrency_control`: one row per argument (INSERT OR REPLACE / set add) -/
def indexArgs (o : Orch) (id : String) : Orch :=
  match o.info.get? id with
  | none => o
  | some inf =>
    let rows := inf.args.map fun (k, v) => (id, k, v)
    { o with argIdx := o.argIdx.filter (fun r => !(rows.any fun r' => decide (r'.1 = r.1) && decide (r'.2.1 = r.2.1))) ++ rows }

def statusOf (o : Orch) (id : String) : Option Status := (o.get id).map (·.status)

/-- all key/value pairs indexed for `id` -/
def matchesKey (o : Orch) (id : String) (key : List (String × String)) : Bool :=
  key.all fun (k, v) => o.argIdx.contains (id, k, v)

/-- `get_existing_invocations(task, key_serialized_arguments, statuses)`; an empty key dict or an empty
    status list means "no filter" (Python truthiness of `{}` / `[]`), on both backends. -/
def existing (o : Orch) (task : String) (key : List (String × String)) (statuses : List Status) : List String :=
  (o.info.filter fun (id, inf) =>
    decide (inf.task = task) &&
    (key.isEmpty || o.matchesKey id key) &&
    (statuses.isEmpty || (match o.statusOf id with | some s => statuses.contains s | none => false))).map (·.1)

def incrRetries (o : Orch) (id : String) : Orch :=
  { o with retries := o.retries.set id ((o.retries.get? id).getD 0 + 1) }

def getRetries (o : Orch) (id : String) : Nat := (o.retries.get? id).getD 0

/-- `register_runner_heartbeats`: new runners get creation = now; existing ones keep it; last beat and
    eligibility are overwritten -/
def heartbeat (o : Orch) (rids : List String) (eligible : Bool) (now : Int) : Orch :=
  rids.foldl (fun o r =>
    match o.hb.get? r with
    | some h => { o with hb := o.hb.set r { h with last := now, eligible := eligible } }
    | none => { o with hb := o.hb.set r { created := now, last := now, eligible := eligible } }) o

/-- `_get_active_runners`: last beat ≥ now − timeout, optional eligibility filter, oldest creation first -/
def activeRunners (o : Orch) (now timeout : Int) (elig : Option Bool) : List String :=
  let act := o.hb.filter fun (_, h) => decide (h.last ≥ now - timeout) && (match elig with | none => true | some e => h.eligible == e)
  (sortBy (fun a b => decide (a.2.created ≤ b.2.created)) act).map (·.1)

/-- `get_pending_invocations_for_recovery`: PENDING with status timestamp ≤ now − max_pending -/
def pendingScan (o : Orch) (now maxPending : Int) : List String :=
  (o.recs.filter fun (_, r) => decide (r.status = .pending) && decide (r.ts ≤ now - maxPending)).map (·.1)

/-- in-memory `_get_running_invocations_for_recovery`: set of runners with a recent beat, then RUNNING
    records with a truthy owner outside that set -/
def runningScanMem (o : Orch) (now timeout : Int) : List String :=
  let active := (o.hb.filter fun (_, h) => decide (h.last ≥ now - timeout)).map (·.1)
  (o.recs.filter fun (_, r) => decide (r.status = .running) && truthy r.owner &&
      (match r.owner with | some ow => !active.contains ow | none => false)).map (·.1)

/-- SQLite `_get_running_invocations_for_recovery`: LEFT JOIN heartbeats; owner NOT NULL and
    (no heartbeat row or last beat < cutoff) -/
def runningScanSql (o : Orch) (now timeout : Int) : List String :=
  (o.recs.filter fun (_, r) => decide (r.status = .running) &&
      (match r.owner with
       | none => false
       | some ow => match o.hb.get? ow with
         | none => true
         | some h => decide (h.last < now - timeout))).map (·.1)

end Orch
end Pynenc
