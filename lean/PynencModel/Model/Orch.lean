import PynencModel.Model.Basic
import PynencModel.Model.Status
/-
  L1 model of the orchestrator's status store (what `MemOrchestrator` and `SQLiteOrchestrator`
  both implement behind `_register_new_invocations`, `_atomic_status_transition`,
  `get_invocation_status_record`).  Timestamps are integers (µs of the controlled clock).
-/
namespace Pynenc

structure ORec where
  status : Status
  owner  : Option String
  ts     : Int
  deriving DecidableEq, Repr

def ORec.srec (r : ORec) : SRec := { status := r.status, owner := r.owner }

inductive SetErr where
  | status (e : StatusErr)
  | unknownId        -- KeyError of the base-class contract
  deriving DecidableEq, Repr

structure Orch where
  recs : AMap String ORec := []
  deriving Repr

namespace Orch

def get (o : Orch) (id : String) : Option ORec := o.recs.get? id

/-- `_register_new_invocations` for one id: writes (REGISTERED, runner, now) unless the id exists
    (SQLite `ON CONFLICT DO NOTHING`; the in-memory orchestrator overwrites — callers never
    register an existing id, the correspondence harness does not either). -/
def register (o : Orch) (id : String) (rid : Option String) (now : Int) : Orch :=
  if o.recs.has id then o
  else { o with recs := o.recs.set id { status := .registered, owner := rid, ts := now } }

/-- `_atomic_status_transition`: read, validate, write one record; on error nothing changes. -/
def setStatus (T : Table) (o : Orch) (id : String) (req : Status) (rid : Option String) (now : Int) :
    Orch × Except SetErr ORec :=
  match o.get id with
  | none => (o, .error .unknownId)
  | some cur =>
    match step T (some cur.srec) req rid with
    | .error e => (o, .error (.status e))
    | .ok r =>
      let nr : ORec := { status := r.status, owner := r.owner, ts := now }
      ({ o with recs := o.recs.set id nr }, .ok nr)

end Orch
end Pynenc
