import PynencModel.Model.Orch
/-
  L1 model of registration / running concurrency control
  (`BaseOrchestrator.route_call`, `route_calls`, `_route_new_call_invocation`,
   `_is_authorize_by_concurrency_control`, `get_additional_invocations_to_run`, `reroute_invocations`,
   `Call.serialized_args_for_concurrency_control`), sequential semantics, on top of `Orch` and a FIFO queue.
  Core Lean only.
-/
namespace Pynenc.CC
open Pynenc

inductive Mode where
  | disabled | task | arguments | keys
  deriving DecidableEq, Repr

def Mode.ofName? : String → Option Mode
  | "disabled" => some .disabled | "task" => some .task | "arguments" => some .arguments | "keys" => some .keys
  | _ => none

structure TaskConf where
  regMode     : Mode := .disabled
  runMode     : Mode := .disabled
  keyArgs     : List String := []
  raiseOnDiff : Bool := false
  rerouteOnCC : Bool := true
  deriving Repr

/-- `serialized_args_for_concurrency_control`: DISABLED/TASK → no argument filter; ARGUMENTS → all
    serialized arguments; KEYS → the key arguments only -/
def keyFor (m : Mode) (keyArgs : List String) (args : List (String × String)) : List (String × String) :=
  match m with
  | .disabled | .task => []
  | .arguments => args
  | .keys => args.filter fun (k, _) => keyArgs.contains k

structure Sys where
  orch  : Orch := {}
  queue : List String := []
  deriving Repr

inductive RouteRes where
  | new (id : String) | reused (id : String) | reusedArgs (id : String) | errDiff
  deriving DecidableEq, Repr

/-- `_route_new_call_invocation`: register (+ history) · push · index when any concurrency mode is on -/
def newInvocation (s : Sys) (tc : TaskConf) (id task call : String) (args : List (String × String))
    (rid : Option String) (now : Int) : Sys :=
  let o1 := s.orch.registerInv id { task := task, call := call, args := args } rid now
  let o2 := if tc.regMode ≠ .disabled ∨ tc.runMode ≠ .disabled then o1.indexArgs id else o1
  { orch := o2, queue := s.queue ++ [id] }

/-- `route_call` -/
def routeCall (s : Sys) (tc : TaskConf) (task call : String) (args : List (String × String))
    (fresh : String) (rid : Option String) (now : Int) : Sys × RouteRes :=
  if tc.regMode = .disabled then (newInvocation s tc fresh task call args rid now, .new fresh)
  else
    match (s.orch.existing task (keyFor tc.regMode tc.keyArgs args) [.registered]).head? with
    | none => (newInvocation s tc fresh task call args rid now, .new fresh)
    | some id =>
      match s.orch.info.get? id with
      | none => (newInvocation s tc fresh task call args rid now, .new fresh)
      | some inf =>
        if inf.call = call then (s, .reused id)
        else if tc.raiseOnDiff then (s, .errDiff)
        else (s, .reusedArgs id)

/-- `route_calls` (batch): register all · push all · index all when running concurrency is on
    (the batch path is refused when registration concurrency is on) -/
def routeBatch (s : Sys) (tc : TaskConf) (task : String) (calls : List (String × String × List (String × String)))
    (rid : Option String) (now : Int) : Sys :=
  let o1 := calls.foldl (fun o (id, call, args) => o.registerInv id { task := task, call := call, args := args } rid now) s.orch
  let o2 := if tc.runMode ≠ .disabled then calls.foldl (fun o (id, _, _) => o.indexArgs id) o1 else o1
  { orch := o2, queue := s.queue ++ calls.map (·.1) }

/-- `_is_authorize_by_concurrency_control`: no invocation of the task with the same key in one of `statuses` -/
def authorized (o : Orch) (tc : TaskConf) (inf : InvInfo) (statuses : List Status) : Bool :=
  tc.runMode = .disabled || (o.existing inf.task (keyFor tc.runMode tc.keyArgs inf.args) statuses).isEmpty

inductive PollOut where
  | ok (claimed : List String)
  | raised (claimedSoFar : List String)     -- a status error escaped from the poll
  deriving DecidableEq, Repr

/-- queue part of `get_invocations_to_run` (`get_additional_invocations_to_run` then `reroute_invocations`),
    with `fuel` = number of queue entries that may be popped -/
def pollLoop (T : Table) (conf : String → TaskConf) (rid : Option String) (now : Int) :
    Nat → Nat → Sys → List String → List String → Sys × List String × List String × Bool
  | 0, _, s, claimed, rer => (s, claimed, rer, true)
  | _, 0, s, claimed, rer => (s, claimed, rer, true)
  | fuel + 1, need + 1, s, claimed, rer =>
    match s.queue with
    | [] => (s, claimed, rer, true)
    | i :: q =>
      let s1 : Sys := { s with queue := q }
      match s1.orch.get i, s1.orch.info.get? i with
      | some r, some inf =>
        if (T (some r.status)).available then
          let tc := conf inf.task
          if !(authorized s1.orch tc inf [.pending, .running]) then
            let target : Status := if tc.rerouteOnCC then .concurrencyControlled else .concurrencyControlledFinal
            match s1.orch.setStatus T i target rid now with
            | (o2, .ok _) =>
              pollLoop T conf rid now fuel (need + 1) { s1 with orch := o2 } claimed (if tc.rerouteOnCC then rer ++ [i] else rer)
            | (_, .error _) => (s1, claimed, rer, false)        -- not caught in the poll: it raises
          else
            match s1.orch.setStatus T i .pending rid now with
            | (o2, .ok _) => pollLoop T conf rid now fuel need { s1 with orch := o2 } (claimed ++ [i]) rer
            | (_, .error _) => pollLoop T conf rid now fuel (need + 1) s1 claimed rer
        else pollLoop T conf rid now fuel (need + 1) s1 claimed rer
      | _, _ => (s1, claimed, rer, false)                        -- unknown id: KeyError escapes

def rerouteAll (T : Table) (rid : Option String) (now : Int) : Sys → List String → Sys × Bool
  | s, [] => (s, true)
  | s, i :: rest =>
    match s.orch.setStatus T i .rerouted rid now with
    | (o2, .ok _) => rerouteAll T rid now { orch := o2, queue := s.queue ++ [i] } rest
    | (_, .error _) => (s, false)

def poll (T : Table) (conf : String → TaskConf) (s : Sys) (n : Nat) (rid : Option String) (now : Int) : Sys × PollOut :=
  let (s1, claimed, rer, ok) := pollLoop T conf rid now s.queue.length n s [] []
  if !ok then (s1, .raised claimed)
  else
    let (s2, ok2) := rerouteAll T rid now s1 (dedup rer)
    (s2, if ok2 then .ok claimed else .raised claimed)

/-- `get_blocking_invocations_to_run`: the ids `get_blocking_invocations(n)` answered (a parameter here: C09 says which ids
    these are), one at a time: skipped when PENDING is not a legal next status, skipped — status untouched, message left
    where it is — when concurrency control blocks it, otherwise claimed; a refused PENDING write is logged and skipped -/
def blockingLoop (T : Table) (conf : String → TaskConf) (rid : Option String) (now : Int) :
    Sys → List String → List String → Sys × List String × Bool
  | s, [], claimed => (s, claimed, true)
  | s, i :: rest, claimed =>
    match s.orch.get i, s.orch.info.get? i with
    | some r, some inf =>
      if !(T (some r.status)).allowed.contains .pending then blockingLoop T conf rid now s rest claimed
      else if !(authorized s.orch (conf inf.task) inf [.pending, .running]) then blockingLoop T conf rid now s rest claimed
      else
        match s.orch.setStatus T i .pending rid now with
        | (o2, .ok _) => blockingLoop T conf rid now { s with orch := o2 } rest (claimed ++ [i])
        | (_, .error _) => blockingLoop T conf rid now s rest claimed
    | _, _ => (s, claimed, false)                                -- unknown id: KeyError escapes

/-- `get_invocations_to_run(n)`: the blocking invocations first, the queue for the slots that are left -/
def pollB (T : Table) (conf : String → TaskConf) (s : Sys) (n : Nat) (rid : Option String) (now : Int)
    (bs : List String) : Sys × PollOut :=
  let (s0, bclaimed, ok0) := blockingLoop T conf rid now s bs []
  if !ok0 then (s0, .raised bclaimed)
  else
    let (s1, claimed, rer, ok) := pollLoop T conf rid now s0.queue.length (n - bclaimed.length) s0 bclaimed []
    if !ok then (s1, .raised claimed)
    else
      let (s2, ok2) := rerouteAll T rid now s1 (dedup rer)
      (s2, if ok2 then .ok claimed else .raised claimed)

/-- worker `run` up to the RUNNING transition: authorisation check, reroute when blocked, request RUNNING -/
def startRun (T : Table) (conf : String → TaskConf) (s : Sys) (i : String) (rid : Option String) (now : Int) : Sys × Bool :=
  match s.orch.info.get? i with
  | none => (s, false)
  | some inf =>
    let tc := conf inf.task
    let s1 := if !(authorized s.orch tc inf [.running]) then (rerouteAll T rid now s [i]).1 else s
    match s1.orch.setStatus T i .running rid now with
    | (o2, .ok _) => ({ s1 with orch := o2 }, true)
    | (_, .error _) => (s1, false)

end Pynenc.CC
