/-
  Worker-pool bookkeeping of the three process-based runners (core Lean only).

  What is modelled (pynenc/runner/*.py, current tree):

  * the tracking dictionary `child_runner_ids : runner id ↦ process handle` as an insertion-ordered
    list of `(id, alive?)` — `alive?` is what `Process.is_alive()` answers for that handle;
  * fresh runner ids (`uuid4()` / `RunnerContext.new_child_context`) as a counter `next`: the k-th
    worker ever created by this runner gets id k (the harness renames uuids by creation order);
  * `start`   — `_on_start`: PersistentProcessRunner spawns `num_processes`, MultiThreadRunner spawns
                `min_processes`, ProcessRunner spawns nothing;
  * `die`     — any set of tracked workers stops being alive (the runner itself does nothing);
  * `iteration` — `runner_loop_iteration`:
        PersistentProcessRunner: pop every dead id; `if current < num: spawn (num - current)`;
        MultiThreadRunner: `_cleanup_dead_processes()` then `_scale_up_processes()`:
            enforce_max_processes: `while current < max_processes: spawn`
            otherwise `q = broker.count_invocations()`;
                      `if q > current and current < max: spawn min(q - current, max - current)`;
        ProcessRunner: `_reclaim_available_slots()` deletes every dead entry and returns
            `max_parallel_slots - len(tracked)`; for each free slot one invocation is fetched
            (`break` when there is none), its fresh runner id gets a first heartbeat
            (`_register_new_child_runner_context`) and a process is started and tracked;
  * `heartbeatIds` — `get_active_child_runner_ids()` = ids of tracked handles that are alive; this is
    what `BaseRunner._report_child_runner_heartbeats` passes to `register_runner_heartbeats`.

  The configured capacities are resolved exactly as the code does (`resolve*`).
-/
namespace Pynenc.Pool

inductive Kind where
  | persistent | multi | process
  deriving DecidableEq, Repr

/-- resolved configuration of one runner -/
structure Cfg where
  kind : Kind
  /-- persistent: `self.num_processes`; multi: `self.max_processes`; process: `max_parallel_slots` -/
  cap : Nat
  /-- multi only: `conf.min_processes` (number spawned by `_on_start`) -/
  minP : Nat := 0
  /-- multi only: `conf.enforce_max_processes` -/
  enforce : Bool := true
  deriving DecidableEq, Repr

/-- `max(conf.min_parallel_slots, conf.num_processes or os.cpu_count() or 1)` -/
def resolvePersistent (minSlots confNum cpu : Nat) : Nat :=
  max minSlots (if confNum ≠ 0 then confNum else if cpu ≠ 0 then cpu else 1)

/-- `conf.max_processes or cpu_count()` -/
def resolveMulti (confMax cpu : Nat) : Nat := if confMax ≠ 0 then confMax else cpu

/-- `max(conf.min_parallel_slots, cpu_count())` -/
def resolveProcess (minSlots cpu : Nat) : Nat := max minSlots cpu

structure Pool where
  /-- `child_runner_ids` in insertion order: (runner id, is_alive()) -/
  tracked : List (Nat × Bool) := []
  /-- supply of fresh ids: the next worker created gets this id -/
  next : Nat := 0
  deriving DecidableEq, Repr

namespace Pool

/-- number of tracked workers whose process is alive -/
def live (p : Pool) : Nat := (p.tracked.filter (·.2)).length

/-- tracked runner ids -/
def ids (p : Pool) : List Nat := p.tracked.map (·.1)

/-- tracked runner ids whose process is dead -/
def deadIds (p : Pool) : List Nat := (p.tracked.filter (fun w => !w.2)).map (·.1)

end Pool

/-- `get_active_child_runner_ids()`: what the parent reports heartbeats for -/
def heartbeatIds (p : Pool) : List Nat := (p.tracked.filter (·.2)).map (·.1)

/-- the ids the next `n` spawned workers get -/
def freshIds (p : Pool) (n : Nat) : List Nat := (List.range n).map (p.next + ·)

/-- spawn `n` workers: each gets a fresh id, is started (alive) and appended to the tracking dict -/
def spawnN (p : Pool) (n : Nat) : Pool :=
  { tracked := p.tracked ++ (freshIds p n).map (fun i => (i, true)), next := p.next + n }

/-- forget every tracked worker whose process is not alive -/
def prune (p : Pool) : Pool := { p with tracked := p.tracked.filter (·.2) }

/-- how many workers one loop iteration spawns, given the number still tracked after pruning and
    the number of queued invocations -/
def spawnCount (c : Cfg) (cur q : Nat) : Nat :=
  match c.kind with
  | .persistent => if cur < c.cap then c.cap - cur else 0
  | .multi =>
    if c.enforce then c.cap - cur
    else if q > cur ∧ cur < c.cap then min (q - cur) (c.cap - cur) else 0
  | .process => min (c.cap - cur) q

/-- `_on_start` -/
def start (c : Cfg) : Pool :=
  spawnN {} (match c.kind with | .persistent => c.cap | .multi => c.minP | .process => 0)

/-- the processes of the given runner ids die (ids that are not tracked: nothing happens) -/
def die (p : Pool) (dead : List Nat) : Pool :=
  { p with tracked := p.tracked.map fun w => if dead.contains w.1 then (w.1, false) else w }

/-- `runner_loop_iteration` with `q` invocations queued -/
def iteration (c : Cfg) (p : Pool) (q : Nat) : Pool :=
  let p1 := prune p
  spawnN p1 (spawnCount c p1.tracked.length q)

/-- ids given a first heartbeat while spawning (ProcessRunner registers each reserved child context) -/
def spawnRegistered (c : Cfg) (p : Pool) (q : Nat) : List Nat :=
  match c.kind with
  | .process => freshIds (prune p) (spawnCount c (prune p).tracked.length q)
  | _ => []

/-- one event in the life of a runner: workers die, the loop iterates (queue length `q`), or the
    parent reports heartbeats -/
inductive Step where
  | die (ids : List Nat)
  | iter (q : Nat)
  | beat
  deriving DecidableEq, Repr

def step (c : Cfg) (p : Pool) : Step → Pool
  | .die ids => die p ids
  | .iter q => iteration c p q
  | .beat => p

/-- runner ids passed to `orchestrator.register_runner_heartbeats` during a step taken in state `p` -/
def reports (c : Cfg) (p : Pool) : Step → List Nat
  | .die _ => []
  | .iter q => spawnRegistered c p q
  | .beat => heartbeatIds p

def exec (c : Cfg) (p : Pool) (steps : List Step) : Pool := steps.foldl (step c) p

/-- state of a runner started with configuration `c` after a sequence of events -/
def run (c : Cfg) (steps : List Step) : Pool := exec c (start c) steps

/-- all ids reported during a sequence of events starting in `p`, in order -/
def allReports (c : Cfg) : Pool → List Step → List Nat
  | _, [] => []
  | p, s :: rest => reports c p s ++ allReports c (step c p s) rest

/-! the loop iteration of the tree *before* the `fix:` commit 96e00a6 (MultiThreadRunner never called
    `_cleanup_dead_processes`): kept only to show that the theorems tell the two apart -/
def iterationNoCleanup (c : Cfg) (p : Pool) (q : Nat) : Pool :=
  spawnN p (spawnCount c p.tracked.length q)

end Pynenc.Pool
