import PynencModel.Model.Basic
import PynencModel.Model.Status
/-
  L1 model of the state backend as `MemStateBackend` and `SQLiteStateBackend` both implement it behind
  `BaseStateBackend` (C16): invocation records (existence, parent), results, exceptions, history,
  workflow data, runner contexts (with the base-class cache in front of the store), app info.
  Values are the serialized strings the client data store produced; timestamps are integer µs of the
  controlled clock.  Core Lean only.
-/
namespace Pynenc

/-- one `InvocationHistory` entry as far as it is observable: entry creation time, recorded status and
    owner, id of the runner context that made the change -/
structure HistE where
  inv    : String
  ts     : Int
  status : Status
  owner  : Option String
  runner : String
  deriving DecidableEq, Repr

/-- a `RunnerContext` as far as it is stored: class name and parent runner id -/
structure RCtx where
  cls    : String
  parent : Option String
  deriving DecidableEq, Repr

structure SB where
  /-- `upsert_invocations`: invocation id ↦ parent invocation id -/
  invs    : AMap String (Option String) := []
  results : AMap String String := []
  excs    : AMap String String := []
  /-- all stored history entries (a multiset: `get_history` sorts by entry time, equal times in
      unspecified order) -/
  hist    : List HistE := []
  wfData  : AMap (String × String) String := []
  /-- what `_store_runner_context` wrote -/
  rctxs   : AMap String RCtx := []
  /-- `BaseStateBackend._runner_context_cache` (per app object; survives `purge`) -/
  cache   : AMap String RCtx := []
  /-- `store_app_info` ran (at component creation) -/
  appInfo : Bool := true
  deriving Repr

namespace SB

/-- `upsert_invocations([inv])` -/
def upsert (s : SB) (id : String) (parent : Option String) : SB := { s with invs := s.invs.set id parent }

/-- `get_invocation(id)` succeeds -/
def hasInv (s : SB) (id : String) : Bool := s.invs.has id

/-- `get_child_invocations(parent)` -/
def children (s : SB) (parent : String) : List String :=
  (s.invs.filter fun p => decide (p.2 = some parent)).map (·.1)

def setResult (s : SB) (id v : String) : SB := { s with results := s.results.set id v }
def setException (s : SB) (id v : String) : SB := { s with excs := s.excs.set id v }
/-- `get_result(id)`: `none` = `KeyError` -/
def getResult (s : SB) (id : String) : Option String := s.results.get? id
def getException (s : SB) (id : String) : Option String := s.excs.get? id

/-- `store_runner_context(ctx)` for a context chain given child first: written to the store only
    when the id is not cached yet; the cache entry is refreshed in any case -/
def storeRctx (s : SB) : List (String × RCtx) → SB
  | [] => s
  | (rid, c) :: rest =>
    let s1 := if s.cache.has rid then s else { s with rctxs := s.rctxs.set rid c }
    storeRctx { s1 with cache := s1.cache.set rid c } rest

/-- `get_runner_context(rid)`: cache first, then the store (and the hit is cached) -/
def getRctx (s : SB) (rid : String) : Option RCtx :=
  match s.cache.get? rid with
  | some c => some c
  | none => s.rctxs.get? rid

/-- `_add_histories([id], entry)` in memory: append -/
def addHistory (s : SB) (e : HistE) : SB := { s with hist := s.hist ++ [e] }

/-- `_add_histories` on SQLite: `INSERT OR REPLACE` under the primary key
    (invocation_id, history_timestamp, history_status) -/
def addHistorySql (s : SB) (e : HistE) : SB :=
  { s with hist := (s.hist.filter fun x => !(decide (x.inv = e.inv) && decide (x.ts = e.ts) && decide (x.status = e.status))) ++ [e] }

/-- `get_history(id)` as a multiset -/
def history (s : SB) (id : String) : List HistE := s.hist.filter (·.inv = id)

def setWf (s : SB) (wf key v : String) : SB := { s with wfData := s.wfData.set (wf, key) v }
/-- `get_workflow_data(wf, key, default)`: `none` = the default -/
def getWf (s : SB) (wf key : String) : Option String := s.wfData.get? (wf, key)

/-- `purge()`: every stored table emptied; the base-class runner-context cache belongs to the app
    object and is not touched; the app's registration record stays discoverable (in-memory reading) -/
def purge (s : SB) : SB := { cache := s.cache, appInfo := s.appInfo }

end SB
end Pynenc
