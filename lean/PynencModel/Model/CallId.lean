/-
  L1 model of call identity (pynenc/call.py `compute_args_id`, identifiers/call_id.py, identifiers/task_id.py)
  and of signature binding (pynenc/arguments.py `Arguments.from_call`).  Core Lean only.

  Strings are `List Char` (Python `str` = sequence of code points; lone surrogates cannot be utf-8 encoded
  and make `compute_args_id` raise, they are outside the model).
-/
namespace Pynenc.CallId

abbrev Str := List Char

def hexDigit (n : Nat) : Char := if n < 10 then Char.ofNat (48 + n) else Char.ofNat (87 + n)

def hexVal (c : Char) : Option Nat :=
  if 48 ≤ c.toNat ∧ c.toNat ≤ 57 then some (c.toNat - 48)
  else if 97 ≤ c.toNat ∧ c.toNat ≤ 102 then some (c.toNat - 87)
  else none

/-! ### `json.dumps(s, ensure_ascii=False)` on a `str`
  `json.encoder.py_encode_basestring`: `ESCAPE = [\x00-\x1f\\"\b\f\n\r\t]`, `ESCAPE_DCT` maps `\\`, `"`,
  `\b \f \n \r \t` to their two-character escapes and every other control character to `\u00XX`;
  everything else (including 0x7f and all non-ASCII) is copied verbatim. -/

def escChar (c : Char) : Str :=
  if c = '"' then ['\\', '"']
  else if c = '\\' then ['\\', '\\']
  else if c = '\n' then ['\\', 'n']
  else if c = '\r' then ['\\', 'r']
  else if c = '\t' then ['\\', 't']
  else if c = '\x08' then ['\\', 'b']
  else if c = '\x0c' then ['\\', 'f']
  else if c.toNat < 32 then ['\\', 'u', '0', '0', hexDigit (c.toNat / 16), hexDigit (c.toNat % 16)]
  else [c]

def escape : Str → Str
  | [] => []
  | c :: rest => escChar c ++ escape rest

/-- `json.dumps(s, ensure_ascii=False)` -/
def encStr (s : Str) : Str := '"' :: (escape s ++ ['"'])

/-! ### a parser for string literals (shows that the literal is self-delimiting) -/

inductive Mode where
  | norm
  | esc
  | uni (k : Nat) (acc : Nat)   -- `k + 1` hex digits still to read, value so far `acc`

def unesc (c : Char) : Option Char :=
  if c = '"' then some '"'
  else if c = '\\' then some '\\'
  else if c = 'n' then some '\n'
  else if c = 'r' then some '\r'
  else if c = 't' then some '\t'
  else if c = 'b' then some '\x08'
  else if c = 'f' then some '\x0c'
  else none

def consRes (c : Char) : Option (Str × Str) → Option (Str × Str)
  | some (s, r) => some (c :: s, r)
  | none => none

/-- body of a literal after the opening quote: returns the decoded string and what follows the closing quote -/
def parseGo : Mode → Str → Option (Str × Str)
  | _, [] => none
  | .norm, c :: rest =>
    if c = '"' then some ([], rest)
    else if c = '\\' then parseGo .esc rest
    else if c.toNat < 32 then none
    else consRes c (parseGo .norm rest)
  | .esc, c :: rest =>
    if c = 'u' then parseGo (.uni 3 0) rest
    else match unesc c with
      | some d => consRes d (parseGo .norm rest)
      | none => none
  | .uni k acc, c :: rest =>
    match hexVal c with
    | none => none
    | some h =>
      match k with
      | 0 => consRes (Char.ofNat (acc * 16 + h)) (parseGo .norm rest)
      | k' + 1 => parseGo (.uni k' (acc * 16 + h)) rest

def parseStr : Str → Option (Str × Str)
  | [] => none
  | c :: rest => if c = '"' then parseGo .norm rest else none

/-! ### the pre-hash text of `compute_args_id` -/

/-- code-point lexicographic order on strings (what Python's `sorted` uses on `str` keys) -/
def leKey : Str → Str → Bool
  | [], _ => true
  | _ :: _, [] => false
  | a :: as, b :: bs =>
    if a.toNat < b.toNat then true else if b.toNat < a.toNat then false else leKey as bs

def lePair (a b : Str × Str) : Bool := leKey a.1 b.1

def encPair (k v : Str) : Str := encStr k ++ ('=' :: (encStr v ++ [';']))

def encPairs : List (Str × Str) → Str
  | [] => []
  | (k, v) :: rest => encPair k v ++ encPairs rest

/-- `for k in sorted(serialized_args.keys())` -/
def sortPairs (l : List (Str × Str)) : List (Str × Str) := l.mergeSort lePair

/-- the text whose utf-8 bytes are fed to SHA-256 (non-empty dictionaries) -/
def preimage (l : List (Str × Str)) : Str := encPairs (sortPairs l)

def utf8 (s : Str) : ByteArray := (String.ofList s).toUTF8

def noArgs : Str := "no_args".toList

/-- `compute_args_id`, the hash is a parameter -/
def argsId (H : ByteArray → Str) (l : List (Str × Str)) : Str :=
  if l.isEmpty then noArgs else H (utf8 (preimage l))

/-- parser of the pre-hash text (fuel = length of the input is always enough) -/
def expect (c : Char) : Str → Option Str
  | [] => none
  | d :: rest => if d = c then some rest else none

def parsePairs : Nat → Str → Option (List (Str × Str))
  | _, [] => some []
  | 0, _ :: _ => none
  | fuel + 1, inp =>
    match parseStr inp with
    | none => none
    | some (k, r1) =>
      match expect '=' r1 with
      | none => none
      | some r2 =>
        match parseStr r2 with
        | none => none
        | some (v, r3) =>
          match expect ';' r3 with
          | none => none
          | some r4 =>
            match parsePairs fuel r4 with
            | none => none
            | some l => some ((k, v) :: l)

/-! ### `TaskId.key` / `from_key`, `CallId.key` / `from_key` -/

structure TaskId where
  module : Str
  func : Str
  deriving DecidableEq, Repr

structure CallId where
  task : TaskId
  argsId : Str
  deriving DecidableEq, Repr

/-- split at the last occurrence of `sep` (`str.rpartition` / `str.rsplit(sep, 1)`); `none` when absent -/
def splitLast (sep : Char) : Str → Option (Str × Str)
  | [] => none
  | c :: rest =>
    match splitLast sep rest with
    | some (a, b) => some (c :: a, b)
    | none => if c = sep then some ([], rest) else none

def TaskId.key (t : TaskId) : Str := t.module ++ ('.' :: t.func)

/-- `TaskId.from_key`: `ValueError` (none) when there is no separator or a side is empty -/
def TaskId.fromKey (k : Str) : Option TaskId :=
  match splitLast '.' k with
  | none => none
  | some (m, f) => if m.isEmpty || f.isEmpty then none else some ⟨m, f⟩

def CallId.key (c : CallId) : Str := c.task.key ++ (':' :: c.argsId)

/-- `CallId.from_key`: `key.rsplit(":", 1)` then `TaskId.from_key` -/
def CallId.fromKey (k : Str) : Option CallId :=
  match splitLast ':' k with
  | none => none
  | some (t, a) =>
    match TaskId.fromKey t with
    | none => none
    | some tid => some ⟨tid, a⟩

/-- `Call.call_id` -/
def callIdOf (H : ByteArray → Str) (t : TaskId) (ser : List (Str × Str)) : CallId := ⟨t, argsId H ser⟩

/-! ### `Arguments.from_call`: `inspect.signature(func).bind(*args, **kwargs)` + `apply_defaults()`
  over abstract signatures of positional-or-keyword parameters. -/

structure Param (V : Type) where
  name : Str
  default : Option V

def kwGet {V : Type} (kw : List (Str × V)) (n : Str) : Option V :=
  match kw with
  | [] => none
  | (k, v) :: rest => if k = n then some v else kwGet rest n

def kwErase {V : Type} (kw : List (Str × V)) (n : Str) : List (Str × V) := kw.filter (fun p => p.1 ≠ n)

def consB {V : Type} (e : Str × V) : Option (List (Str × V)) → Option (List (Str × V))
  | some l => some (e :: l)
  | none => none

/-- `none` = `TypeError` (too many positionals, multiple values, unexpected keyword, missing argument) -/
def bindArgs {V : Type} : List (Param V) → List V → List (Str × V) → Option (List (Str × V))
  | [], [], kw => if kw.isEmpty then some [] else none
  | [], _ :: _, _ => none
  | p :: ps, v :: vs, kw =>
    if (kwGet kw p.name).isSome then none else consB (p.name, v) (bindArgs ps vs kw)
  | p :: ps, [], kw =>
    match kwGet kw p.name with
    | some v => consB (p.name, v) (bindArgs ps [] (kwErase kw p.name))
    | none =>
      match p.default with
      | some d => consB (p.name, d) (bindArgs ps [] kw)
      | none => none

/-- Python `{**a, **b}`: the keys of `a` in order (values overridden by `b`), then the new keys of `b` -/
def mergeDict {V : Type} (a b : List (Str × V)) : List (Str × V) :=
  a.map (fun p => (p.1, (kwGet b p.1).getD p.2)) ++ b.filter (fun p => (kwGet a p.1).isNone)

/-- `PreSerializedCall.serialized_arguments`: `{**common_serialized_args, **serialize(other_args)}` — a per-call
    argument overrides a common one of the same name -/
def batchDict {V : Type} (common other : List (Str × V)) : List (Str × V) := mergeDict common other

/-- `distribute_batch_calls` with `common_args`: what is kept per call from the bound arguments
    (`k in params or k not in common_args`) -/
def batchOther {V : Type} (common params bound : List (Str × V)) : List (Str × V) :=
  bound.filter (fun p => (kwGet params p.1).isSome || (kwGet common p.1).isNone)

/-- the whole batch path for one call: bind `{**common_args, **params}` to the signature
    (`task.args(**merged)`, defaults applied), split off the per-call part, and merge again in
    `PreSerializedCall`.  `none` = `TypeError` from the binding. -/
def batchCall {V : Type} (sig : List (Param V)) (common params : List (Str × V)) : Option (List (Str × V)) :=
  match bindArgs sig [] (mergeDict common params) with
  | some bound => some (batchDict common (batchOther common params bound))
  | none => none

/-- the dictionary of the batch path *before* the repair (no signature binding; on a key present in both the common
    value won): `{**common, **{k: v for k, v in other if k not in common}}` -/
def batchDictOld {V : Type} (common other : List (Str × V)) : List (Str × V) :=
  common ++ other.filter (fun p => (kwGet common p.1).isNone)

end Pynenc.CallId
