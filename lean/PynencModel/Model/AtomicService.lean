/-
  L1 model of pynenc/orchestrator/atomic_service.py: `calculate_time_slot`,
  `is_runner_in_time_slot`, `can_run_atomic_service`, over ℚ and parametric in the rounding
  function `fl` applied after every arithmetic operation the Python code performs on floats
  (`fl = id` gives exact arithmetic; `fl = rne` is IEEE-754 binary64 round-to-nearest-even on the
  normal range, executable, compared bit-for-bit with CPython by the correspondence check).
  Core Lean only.
-/
namespace Pynenc.AS

/-- ⌊log2 (a / b)⌋ for positive naturals, by search from a starting guess (structural on fuel) -/
def ilog2Ratio (a b : Nat) : Int :=
  -- e with 2^e ≤ a/b < 2^(e+1)
  let g : Int := (Nat.log2 a : Int) - (Nat.log2 b : Int)
  -- the true value is g or g - 1
  let ge (e : Int) : Bool := if e ≥ 0 then b * 2 ^ e.toNat ≤ a else b ≤ a * 2 ^ (-e).toNat
  if ge g then g else g - 1

/-- round half to even of a non-negative rational to a natural -/
def roundHalfEven (q : Rat) : Nat :=
  let fl := q.floor.toNat
  let r := q - (fl : Rat)
  if r < 1/2 then fl else if r > 1/2 then fl + 1 else if fl % 2 == 0 then fl else fl + 1

/-- binary64 round-to-nearest-even (normal range; no overflow/subnormal handling) -/
def rne (x : Rat) : Rat :=
  if x == 0 then 0 else
  let a := if x < 0 then -x else x
  let e := ilog2Ratio a.num.toNat a.den          -- 2^e ≤ a < 2^(e+1)
  let sh : Int := 52 - e                          -- scale so that mantissa is in [2^52, 2^53)
  let scaled : Rat := if sh ≥ 0 then a * (2 ^ sh.toNat : Nat) else a / (2 ^ (-sh).toNat : Nat)
  let m := roundHalfEven scaled
  let r : Rat := if sh ≥ 0 then (m : Rat) / (2 ^ sh.toNat : Nat) else (m : Rat) * (2 ^ (-sh).toNat : Nat)
  if x < 0 then -r else r

/-- Python `a % b` for floats with `b > 0`, `a ≥ 0` is C `fmod`, which is exact -/
def fmod (t I : Rat) : Rat := t - I * ((t / I).floor : Rat)

section
variable (fl : Rat → Rat)

/-- `service_interval_minutes * 60` -/
def interval (imin : Rat) : Rat := fl (imin * 60)
/-- `spread_margin_minutes * 60` -/
def margin (mmin : Rat) : Rat := fl (mmin * 60)
/-- `time_slot_size = service_interval / total_runners` -/
def slotSize (imin : Rat) (n : Nat) : Rat := fl (interval fl imin / (n : Rat))
/-- `runner_start_time = runner_position * time_slot_size` -/
def slotStart (imin : Rat) (n p : Nat) : Rat := fl ((p : Rat) * slotSize fl imin n)
/-- `(runner_position + 1) * time_slot_size - spread_margin` -/
def rawEnd (imin mmin : Rat) (n p : Nat) : Rat :=
  fl (fl (((p + 1 : Nat) : Rat) * slotSize fl imin n) - margin fl mmin)
/-- `runner_end_time` after the validity fallback -/
def slotEnd (imin mmin : Rat) (n p : Nat) : Rat :=
  if rawEnd fl imin mmin n p ≤ slotStart fl imin n p
  then fl (slotStart fl imin n p + fl (slotSize fl imin n / 2))
  else rawEnd fl imin mmin n p

/-- `is_runner_in_time_slot` for the slot of position `p` -/
def inSlot (imin mmin : Rat) (n p : Nat) (t : Rat) : Bool :=
  let tc := fmod t (interval fl imin)
  decide (slotStart fl imin n p ≤ tc) && decide (tc < slotEnd fl imin mmin n p)

/-- `can_run_atomic_service` for the runner at `pos` (`none` = not in the active list) among `n` active runners -/
def canRun (imin mmin : Rat) (n : Nat) (pos : Option Nat) (t : Rat) : Bool :=
  if n = 0 then false
  else if n = 1 then true
  else match pos with
    | none => false
    | some p => inSlot fl imin mmin n p t
end

end Pynenc.AS
