/-
  How the in-memory orchestrator keeps the read-validate-write of ONE invocation to one thread at a time (core Lean only) — C02.

  `MemOrchestrator._atomic_status_transition`:  `lock = self._get_invocation_lock(id)` ; `with lock:` read the record, decide,
  write the record.  `_get_invocation_lock` is `self.locks.setdefault(id, threading.Lock())` — one atomic get-or-create.
  Any number of threads, any interleaving of these steps (one invocation id; transitions of other ids share nothing but the
  table, whose entries for other ids do not matter here).
  `Variant.checkThenCreate` is the earlier form the source comment warns about (`if id not in locks: locks[id] = Lock()`).
  `record` counts the writes as the threads see them (each writes "what it read, plus one"), `writes` counts the write steps:
  they agree exactly when no update is lost.

  Namespace `Cv`: the alternative a maintainer may reach for — a set of ids "in transition" under ONE condition variable that
  is notified at the end of every transition (also those of OTHER invocations).  A woken thread that re-checks (`while`)
  keeps the exclusion, one that does not (`if`) loses it.

  Not modelled: `purge()` clears the lock table (and every record); a purge concurrent with transitions is outside C02.
-/
namespace Pynenc.Excl

inductive Pc where
  | idle | looked | has (l : Nat) | inCS (l : Nat) | readCS (l x : Nat) | wrote (l : Nat) | done
  deriving DecidableEq, Repr

structure S where
  pc     : Nat → Pc
  table  : Option Nat
  next   : Nat
  held   : Nat → Bool
  record : Nat
  writes : Nat

inductive Variant where
  | setdefault
  | checkThenCreate
  deriving DecidableEq, Repr

/-- the lock object a thread has a reference to -/
def ref : Pc → Option Nat
  | .has l | .inCS l | .readCS l _ | .wrote l => some l
  | _ => none

/-- the lock object a thread holds (it is inside the read-validate-write) -/
def lockOf : Pc → Option Nat
  | .inCS l | .readCS l _ | .wrote l => some l
  | _ => none

def upd {β : Type} (f : Nat → β) (i : Nat) (v : β) : Nat → β := fun j => if j = i then v else f j

inductive Step (v : Variant) : S → S → Prop where
  | getOld (s : S) (t l : Nat) : v = .setdefault → s.pc t = .idle → s.table = some l →
      Step v s { s with pc := upd s.pc t (.has l) }
  | getNew (s : S) (t : Nat) : v = .setdefault → s.pc t = .idle → s.table = none →
      Step v s { s with pc := upd s.pc t (.has s.next), table := some s.next, next := s.next + 1 }
  | checkHit (s : S) (t l : Nat) : v = .checkThenCreate → s.pc t = .idle → s.table = some l →
      Step v s { s with pc := upd s.pc t (.has l) }
  | checkMiss (s : S) (t : Nat) : v = .checkThenCreate → s.pc t = .idle → s.table = none →
      Step v s { s with pc := upd s.pc t .looked }
  | create (s : S) (t : Nat) : v = .checkThenCreate → s.pc t = .looked →
      Step v s { s with pc := upd s.pc t (.has s.next), table := some s.next, next := s.next + 1 }
  | acquire (s : S) (t l : Nat) : s.pc t = .has l → s.held l = false →
      Step v s { s with pc := upd s.pc t (.inCS l), held := upd s.held l true }
  | read (s : S) (t l : Nat) : s.pc t = .inCS l →
      Step v s { s with pc := upd s.pc t (.readCS l s.record) }
  | write (s : S) (t l x : Nat) : s.pc t = .readCS l x →
      Step v s { s with pc := upd s.pc t (.wrote l), record := x + 1, writes := s.writes + 1 }
  | leave (s : S) (t l : Nat) : s.pc t = .wrote l →
      Step v s { s with pc := upd s.pc t .done, held := upd s.held l false }

def init : S := { pc := fun _ => .idle, table := none, next := 0, held := fun _ => false, record := 0, writes := 0 }

inductive Reach (v : Variant) : S → Prop where
  | init : Reach v init
  | step (s s' : S) : Reach v s → Step v s s' → Reach v s'

namespace Cv

inductive Pc where
  | idle | waiting | woken | inCS | done
  deriving DecidableEq, Repr

structure S where
  pc   : Nat → Pc
  /-- the id is in the in-transition set -/
  busy : Bool

inductive Variant where
  | recheck      -- `while id in in_transition: cv.wait()`
  | noRecheck    -- `if id in in_transition: cv.wait()`
  deriving DecidableEq, Repr

def wake (f : Nat → Pc) : Nat → Pc := fun j => match f j with | .waiting => .woken | p => p

inductive Step (v : Variant) : S → S → Prop where
  | enterFree (s : S) (t : Nat) : s.pc t = .idle → s.busy = false → Step v s { pc := upd s.pc t .inCS, busy := true }
  | enterBusy (s : S) (t : Nat) : s.pc t = .idle → s.busy = true → Step v s { s with pc := upd s.pc t .waiting }
  /-- a transition of ANOTHER invocation ends: `notify_all()` on the shared condition -/
  | bystander (s : S) : Step v s { s with pc := wake s.pc }
  | resumeFree (s : S) (t : Nat) : s.pc t = .woken → s.busy = false → Step v s { pc := upd s.pc t .inCS, busy := true }
  | resumeBusy (s : S) (t : Nat) : v = .recheck → s.pc t = .woken → s.busy = true → Step v s { s with pc := upd s.pc t .waiting }
  | resumeBlind (s : S) (t : Nat) : v = .noRecheck → s.pc t = .woken → s.busy = true → Step v s { pc := upd s.pc t .inCS, busy := true }
  | leave (s : S) (t : Nat) : s.pc t = .inCS → Step v s { pc := wake (upd s.pc t .done), busy := false }

def init : S := { pc := fun _ => .idle, busy := false }

inductive Reach (v : Variant) : S → Prop where
  | init : Reach v init
  | step (s s' : S) : Reach v s → Step v s s' → Reach v s'

end Cv

end Pynenc.Excl
