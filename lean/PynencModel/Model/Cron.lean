/-
  L1 model of pynenc/trigger/conditions/cron.py (`CronCondition._is_satisfied_by`) and of the part of
  `croniter` it relies on, for 5-field expressions.  Core Lean only.

  Time is an `Int` number of microseconds since the Unix epoch (what the harness' virtual clock
  produces); a *minute* is `t / 60_000_000` (floor).  Every scheduled instant of a 5-field cron
  expression is the start of a minute, so a schedule is a predicate `tick : Int → Bool` on minutes.

  What the code does (read from cron.py and croniter 6.x; compared on every run):

  * `croniter.match(expr, ts)`             ⇔ `tick (minOf ts)`  — true during the *whole* scheduled minute;
  * `croniter(expr, ts).get_prev()`        = the latest tick minute `≤ minOf (ts − 1µs)`;
  * `croniter(expr, last).get_next()`      = the first tick minute `> minOf last`;
  * `time_diff_seconds` = `ts − ts.replace(second=0, microsecond=0)` when `match` (the offset inside the
    scheduled minute), else `ts − prev`;
  * satisfied ⇔ (no last execution ∨ (ts − last ≥ min_interval ∧ ts ≥ next tick after last))
                ∧ 0 ≤ time_diff ≤ check_window ∧ ¬(strict ∧ time_diff > tolerance).

  The first part of this file is abstract in the schedule (`satisfiedWith` takes the two searched
  values); the second part is the concrete matcher: field grammar `*`, `*/n`, `a`, `a/n`, `a-b`,
  `a-b/n` and comma lists, croniter's "a list that covers the whole range is `*`" normalisation with
  its day-of-month / day-of-week exception, the day-of-month OR day-of-week rule, the proleptic
  Gregorian calendar on `Int` days, and bounded searches for the latest / next tick.
-/
namespace Pynenc.Cron

/-- microseconds per minute -/
def usMin : Int := 60000000
/-- microseconds per second -/
def usSec : Int := 1000000

/-- the minute an instant lies in -/
def minOf (t : Int) : Int := t / usMin

/-- `CronCondition` settings (all in seconds, as in the constructor) -/
structure Cfg where
  window : Int := 60
  minInterval : Int := 50
  tolerance : Int := 30
  strict : Bool := false
deriving Repr, DecidableEq

/-- `time_diff_seconds` in µs: the offset inside the minute during a scheduled minute, else the distance
    to the latest tick -/
def timeDiff (tickNow : Bool) (latest : Int) (t : Int) : Int :=
  if tickNow then t - minOf t * usMin else t - latest * usMin

/-- the window / strict-timing part of `_is_satisfied_by` -/
def inWindow (c : Cfg) (tickNow : Bool) (latest : Int) (t : Int) : Bool :=
  decide (0 ≤ timeDiff tickNow latest t) && decide (timeDiff tickNow latest t ≤ c.window * usSec) &&
  !(c.strict && decide (c.tolerance * usSec < timeDiff tickNow latest t))

/-- the last-execution part of `_is_satisfied_by`; `nextAfterLast` is `get_next` from the last execution -/
def lastOK (c : Cfg) (nextAfterLast : Option Int) (t : Int) (last : Option Int) : Bool :=
  match last, nextAfterLast with
  | none, _ => true
  | some l, some n => decide (c.minInterval * usSec ≤ t - l) && decide (n * usMin ≤ t)
  | some _, none => false

/-- `CronCondition._is_satisfied_by`, given what croniter returns:
    `tickNow` = `croniter.match`, `latest` = latest tick minute `≤ minOf t`,
    `nextAfterLast` = first tick minute after the minute of the last execution -/
def satisfiedWith (c : Cfg) (tickNow : Bool) (latest : Int) (nextAfterLast : Option Int)
    (t : Int) (last : Option Int) : Bool :=
  lastOK c nextAfterLast t last && inWindow c tickNow latest t

/-! ### one runner polling: `_should_trigger_cron_condition` with an atomic store, no competitor
    (every poll, the first one of a never-fired condition included, is judged by `is_satisfied_by`) -/

/-- fired poll instants when every poll is judged by `sat` (last execution updated on firing) -/
def runPolls (sat : Int → Option Int → Bool) : Option Int → List Int → List Int
  | _, [] => []
  | last, t :: ts => if sat t last then t :: runPolls sat (some t) ts else runPolls sat last ts

/-- last execution after a poll sequence -/
def lastAfter (sat : Int → Option Int → Bool) : Option Int → List Int → Option Int
  | last, [] => last
  | last, t :: ts => if sat t last then lastAfter sat (some t) ts else lastAfter sat last ts

/-! ### calendar -/

/-- days since 1970-01-01 ↦ (year, month, day), proleptic Gregorian (days-from-civil inverse) -/
def civilFromDays (z0 : Int) : Int × Int × Int :=
  let z := z0 + 719468
  let era := z / 146097
  let doe := z - era * 146097
  let yoe := (doe - doe / 1460 + doe / 36524 - doe / 146096) / 365
  let y := yoe + era * 400
  let doy := doe - (365 * yoe + yoe / 4 - yoe / 100)
  let mp := (5 * doy + 2) / 153
  let d := doy - (153 * mp + 2) / 5 + 1
  let m := if mp < 10 then mp + 3 else mp - 9
  (if m ≤ 2 then y + 1 else y, m, d)

/-- day of week, Sunday = 0 (1970-01-01 was a Thursday) -/
def dowOfDays (z : Int) : Int := (z + 4) % 7

/-! ### cron fields -/

/-- one expanded field: `star` = croniter's `["*"]`, else the sorted value list -/
structure Field where
  star : Bool
  vals : List Nat
  hasStarChar : Bool      -- the field text contains a `*` (croniter tests this on the raw text)
deriving Repr, DecidableEq

def Field.has (f : Field) (v : Int) : Bool := f.star || f.vals.contains v.toNat

/-- `lo, lo+step, … ≤ hi` -/
def stepRange (lo hi step : Nat) : List Nat :=
  (List.range (hi + 1 - lo)).filterMap fun i => if i % step == 0 then some (lo + i) else none

/-- one comma-separated item; `none` = not in the supported grammar / out of range -/
def parseItem (lo hi : Nat) (s : String) : Option (List Nat) :=
  let (body, step?) : String × Option Nat :=
    match s.splitOn "/" with
    | [b] => (b, some 1)
    | [b, st] => (b, st.toNat?)
    | _ => ("", none)
  match step? with
  | none => none
  | some 0 => none
  | some step =>
    let hasStep := (s.splitOn "/").length == 2
    if body == "*" then (if hasStep then some (stepRange lo hi step) else none)
    else match body.splitOn "-" with
      | [a] => match a.toNat? with
        | some a => if a < lo || a > hi then none
                    else if hasStep then some (stepRange a hi step) else some [a]
        | none => none
      | [a, b] => match a.toNat?, b.toNat? with
        | some a, some b => if a < lo || b > hi || a ≥ b then none else some (stepRange a b step)
        | _, _ => none
      | _ => none

def parseItems (lo hi : Nat) : List String → Option (List Nat)
  | [] => some []
  | s :: rest => match parseItem lo hi s, parseItems lo hi rest with
    | some a, some b => some (a ++ b)
    | _, _ => none

def dedupNat : List Nat → List Nat
  | [] => []
  | x :: xs => x :: (dedupNat xs).filter (· != x)

/-- a field before the whole-range normalisation: `(isLiteralStar, distinct values, text has '*')` -/
def parseFieldRaw (lo hi : Nat) (s : String) : Option (Bool × List Nat × Bool) :=
  let hs := s.toList.contains '*'
  if s == "*" then some (true, [], hs)
  else match parseItems lo hi (s.splitOn ",") with
    | some vs => if vs.isEmpty then none else some (false, dedupNat vs, hs)
    | none => none

structure Expr where
  minute : Field
  hour : Field
  dom : Field
  month : Field
  dow : Field
deriving Repr, DecidableEq

/-- croniter's normalisation: a value list that covers the whole range becomes `*`, except for a day
    field when the *other* day field's text contains no `*` -/
def mkField (raw : Bool × List Nat × Bool) (lenAll : Nat) (keepList : Bool) : Field :=
  let (st, vs, hs) := raw
  if st then { star := true, vals := [], hasStarChar := hs }
  else if vs.length == lenAll && !keepList then { star := true, vals := [], hasStarChar := hs }
  else { star := false, vals := vs, hasStarChar := hs }

def parseExpr (mi h d mo w : String) : Option Expr :=
  match parseFieldRaw 0 59 mi, parseFieldRaw 0 23 h, parseFieldRaw 1 31 d, parseFieldRaw 1 12 mo,
        parseFieldRaw 0 6 w with
  | some rmi, some rh, some rd, some rmo, some rw =>
    some { minute := mkField rmi 60 false, hour := mkField rh 24 false,
           dom := mkField rd 31 (!rw.2.2), month := mkField rmo 12 false,
           dow := mkField rw 7 (!rd.2.2) }
  | _, _, _, _, _ => none

/-- day-level part of the schedule: month, and day-of-month / day-of-week (OR when both are restricted) -/
def Expr.dayOK (e : Expr) (days : Int) : Bool :=
  let (_, m, d) := civilFromDays days
  let w := dowOfDays days
  e.month.has m &&
    (if e.dom.star && e.dow.star then true
     else if e.dom.star then e.dow.has w
     else if e.dow.star then e.dom.has d
     else e.dom.has d || e.dow.has w)

/-- time-of-day part: hour and minute of the minute-of-day `0 … 1439` -/
def Expr.todOK (e : Expr) (tod : Int) : Bool := e.hour.has (tod / 60) && e.minute.has (tod % 60)

/-- the schedule of an expression, as a predicate on minutes since the epoch -/
def Expr.tick (e : Expr) (m : Int) : Bool := e.dayOK (m / 1440) && e.todOK (m % 1440)

/-! ### bounded searches -/

/-- largest `k ∈ (hi − n, hi]` with `p k` -/
def scanDown (p : Int → Bool) (hi : Int) : Nat → Option Int
  | 0 => none
  | n + 1 => if p hi then some hi else scanDown p (hi - 1) n

/-- smallest `k ∈ [lo, lo + n)` with `p k` -/
def scanUp (p : Int → Bool) (lo : Int) : Nat → Option Int
  | 0 => none
  | n + 1 => if p lo then some lo else scanUp p (lo + 1) n

/-- how many days a search may walk (a little over eight years: 29 February in a century gap) -/
def dayFuel : Nat := 3000

/-- latest tick minute `≤ m` of a schedule that factors into a day part and a time-of-day part -/
def latestOf (dayP todP : Int → Bool) (m : Int) : Option Int :=
  let d := m / 1440
  let r := m % 1440
  match (if dayP d then scanDown todP r (r.toNat + 1) else none) with
  | some r' => some (d * 1440 + r')
  | none =>
    match scanDown todP 1439 1440, scanDown dayP (d - 1) dayFuel with
    | some rmax, some d' => some (d' * 1440 + rmax)
    | _, _ => none

/-- first tick minute `> m` -/
def nextOf (dayP todP : Int → Bool) (m : Int) : Option Int :=
  let d := (m + 1) / 1440
  let r := (m + 1) % 1440
  match (if dayP d then scanUp todP r (1440 - r).toNat else none) with
  | some r' => some (d * 1440 + r')
  | none =>
    match scanUp todP 0 1440, scanUp dayP (d + 1) dayFuel with
    | some rmin, some d' => some (d' * 1440 + rmin)
    | _, _ => none

def Expr.latest (e : Expr) (m : Int) : Option Int := latestOf e.dayOK e.todOK m
def Expr.next (e : Expr) (m : Int) : Option Int := nextOf e.dayOK e.todOK m

/-- `CronCondition._is_satisfied_by` for a concrete expression; `none` = a search ran out of fuel
    (croniter would raise) -/
def Expr.isSatisfiedBy (e : Expr) (c : Cfg) (t : Int) (last : Option Int) : Option Bool :=
  match e.latest (minOf t) with
  | none => none
  | some l =>
    match last with
    | none => some (satisfiedWith c (e.tick (minOf t)) l none t none)
    | some lst =>
      match e.next (minOf lst) with
      | none => none
      | some n => some (satisfiedWith c (e.tick (minOf t)) l (some n) t (some lst))

/-! ### `datetime.isoformat()` of a UTC instant (the cron context id is `cron_<isoformat>`) -/

def pad (w : Nat) (n : Int) : String :=
  let s := toString n.toNat
  String.ofList (List.replicate (w - s.length) '0') ++ s

def isoformat (t : Int) : String :=
  let secs := t / usSec
  let us := t % usSec
  let days := secs / 86400
  let sod := secs % 86400
  let (y, m, d) := civilFromDays days
  let base := s!"{pad 4 y}-{pad 2 m}-{pad 2 d}T{pad 2 (sod / 3600)}:{pad 2 (sod % 3600 / 60)}:{pad 2 (sod % 60)}"
  (if us == 0 then base else base ++ "." ++ pad 6 us) ++ "+00:00"

end Pynenc.Cron
