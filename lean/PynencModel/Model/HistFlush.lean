/-
  Keeping track of the background history writers of one state backend, and the flush (core Lean only) — C10.

  `add_history` / `add_histories`: a writer thread is created, TRACKED (appended to `invocation_threads[...]`) and then
  started; the writer stores its entry and ends.  `wait_for_all_async_operations` joins every tracked thread.
  Any number of writers, registered by any number of actors, in any interleaving of these steps.
  `Variant.prune` is the tracking that first forgets the writers that are not alive (`t.is_alive()` is False for a finished
  thread — and for one that has been tracked but not started yet).
-/
namespace Pynenc.HistFlush

structure S where
  /-- appended to the list at some time -/
  tracked : Nat → Bool
  /-- currently in the list the flush iterates -/
  listed  : Nat → Bool
  started : Nat → Bool
  /-- the entry has been stored (the thread has ended) -/
  stored  : Nat → Bool

inductive Variant where
  | keep     -- the code: append only
  | prune    -- forget the writers that are not alive, then append
  deriving DecidableEq, Repr

def alive (s : S) (j : Nat) : Bool := s.started j && !s.stored j

def upd (f : Nat → Bool) (i : Nat) (v : Bool) : Nat → Bool := fun j => if j = i then v else f j

inductive Step (v : Variant) : S → S → Prop where
  /-- `…append(thread)` for a writer that has not been registered before -/
  | track (s : S) (i : Nat) : s.tracked i = false →
      Step v s { s with tracked := upd s.tracked i true,
                        listed := upd (match v with | .keep => s.listed | .prune => fun j => s.listed j && alive s j) i true }
  /-- `thread.start()` comes after the tracking -/
  | start (s : S) (i : Nat) : s.tracked i = true → s.started i = false →
      Step v s { s with started := upd s.started i true }
  /-- the writer stores its entry and ends -/
  | store (s : S) (i : Nat) : s.started i = true → s.stored i = false →
      Step v s { s with stored := upd s.stored i true }

inductive Reach (v : Variant) : S → Prop where
  | init : Reach v { tracked := fun _ => false, listed := fun _ => false, started := fun _ => false, stored := fun _ => false }
  | step (s s' : S) : Reach v s → Step v s s' → Reach v s'

/-- `for thread in invocation_threads[...]: thread.join()` returns: every listed writer has ended -/
def FlushReturns (s : S) : Prop := ∀ j, s.listed j = true → s.stored j = true

/-- every `add_history` call has returned: what was tracked has been started -/
def Quiet (s : S) : Prop := ∀ j, s.tracked j = true → s.started j = true

end Pynenc.HistFlush
