import PynencModel.Model.Orch
/-
  L2 model of one run of `recover_pending_invocations` / `recover_running_invocations`
  (pynenc/core_tasks.py, after the `fix:` that catches the status error per invocation and re-routes
  in a `finally`), interleaved with an arbitrary environment: before each of the run's own requests an
  arbitrary list of status requests by other actors (owners making progress, other runners) is executed.
-/
namespace Pynenc.Recovery
open Pynenc

/-- one environment request: (invocation, requested status, requester) -/
abbrev Req := String × Status × Option String

/-- apply environment requests; refused ones change nothing (they raise in the other actor) -/
def applyEnv (T : Table) (o : Orch) : List Req → Orch
  | [] => o
  | (i, s, r) :: rest => applyEnv T (o.setStatus T i s r 0).1 rest

/-- phase 1: for every scanned id, after some environment activity, request `target`
    (PENDING_RECOVERY / RUNNING_RECOVERY) as the recovery runner; a refused request skips the id -/
def takePhase (T : Table) (target : Status) (rid : Option String) :
    Orch → List (String × List Req) → Orch × List String
  | o, [] => (o, [])
  | o, (i, env) :: rest =>
    let o1 := applyEnv T o env
    match o1.setStatus T i target rid 0 with
    | (o2, .ok _) => let (o3, taken) := takePhase T target rid o2 rest; (o3, i :: taken)
    | (o2, .error _) => takePhase T target rid o2 rest

/-- phase 2 (`reroute_invocations`): for every taken id, after some environment activity, request
    REROUTED and push; a refused REROUTED request raises and aborts the rest (returned flag) -/
def reroutePhase (T : Table) (rid : Option String) :
    Orch → List String → List (String × List Req) → Orch × List String × Bool
  | o, q, [] => (o, q, true)
  | o, q, (i, env) :: rest =>
    let o1 := applyEnv T o env
    match o1.setStatus T i .rerouted rid 0 with
    | (o2, .ok _) => reroutePhase T rid o2 (q ++ [i]) rest
    | (o2, .error _) => (o2, q, false)

end Pynenc.Recovery
