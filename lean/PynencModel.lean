import PynencModel.Model.Status
