import PynencModel.Driver.Core
import PynencModel.Driver.C12
/-
  `pynmodel`: one operation per input line, one canonical output line per operation.
  The harness runs the real pynenc code on the same operations and diffs the outputs.
  Each property's operations live in a fragment `PynencModel/Driver/*.lean` with its own state.
-/
open Pynenc

structure World where
  core : Driver.Core.St := {}
  c12 : Driver.C12.St := {}

def stepLine (w : World) (line : String) : World × String :=
  let toks := (line.splitOn " ").filter (· ≠ "")
  if let some (s, o) := Driver.Core.handle w.core toks then ({ w with core := s }, o)
  else if let some (s, o) := Driver.C12.handle w.c12 toks then ({ w with c12 := s }, o)
  else (w, "bad-op")

partial def loop (h : IO.FS.Stream) (out : IO.FS.Stream) (w : World) : IO Unit := do
  let line ← h.getLine
  if line.isEmpty then return ()
  let (w', o) := stepLine w (line.trimAscii.toString)
  out.putStrLn o
  out.flush
  loop h out w'

def main : IO Unit := do loop (← IO.getStdin) (← IO.getStdout) {}
