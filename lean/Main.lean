import PynencModel.Model.Proto
import PynencModel.Model.Orch
import PynencModel.Gen.StatusTable
import PynencModel.Model.AtomicService
/-
  `pynmodel`: one operation per input line, one canonical output line per operation.
  The harness runs the real pynenc code on the same operations and diffs the outputs.
-/
open Pynenc Pynenc.Proto

structure World where
  orch : Orch := {}

def showRec (r : ORec) : String := s!"{r.status.name} {tok r.owner} {r.ts}"

def showSetErr : SetErr → String
  | .status .transition => "err transition"
  | .status .ownership => "err ownership"
  | .unknownId => "err keyerror"

def parseRat (s : String) : Option Rat :=
  match s.splitOn "/" with
  | [a, b] => match a.toInt?, b.toNat? with
    | some n, some d => if d = 0 then none else some ((n : Rat) / (d : Rat))
    | _, _ => none
  | [a] => a.toInt?.map fun n => (n : Rat)
  | _ => none

def showRat (r : Rat) : String := s!"{r.num}/{r.den}"

def stepLine (w : World) (line : String) : World × String :=
  match (line.splitOn " ").filter (· ≠ "") with
  -- pure status step:  st.step <cur|-> <owner tok> <req> <rid tok>
  | ["st.step", cur, owner, req, rid] =>
    match Status.ofName? req, untok owner, untok rid with
    | some rq, some ow, some rd =>
      let c : Option (Option SRec) :=
        if cur == "-" then some none else (Status.ofName? cur).map fun s => some { status := s, owner := ow }
      match c with
      | some c =>
        match step Gen.table c rq rd with
        | .ok r => (w, s!"ok {r.status.name} {tok r.owner}")
        | .error .transition => (w, "err transition")
        | .error .ownership => (w, "err ownership")
      | none => (w, "bad-op")
    | _, _, _ => (w, "bad-op")
  -- C12: as.slot <imin> <mmin> <n> <p>   /  as.can <imin> <mmin> <n> <pos|-> <t>   (binary64 arithmetic via rne)
  | ["as.slot", imin, mmin, n, p] =>
    match parseRat imin, parseRat mmin, n.toNat?, p.toNat? with
    | some i, some m, some n, some p =>
      (w, s!"{showRat (AS.slotStart AS.rne i n p)} {showRat (AS.slotEnd AS.rne i m n p)}")
    | _, _, _, _ => (w, "bad-op")
  | ["as.can", imin, mmin, n, pos, t] =>
    match parseRat imin, parseRat mmin, n.toNat?, parseRat t with
    | some i, some m, some n, some t =>
      let ps : Option (Option Nat) := if pos == "-" then some none else pos.toNat?.map some
      match ps with
      | some ps => (w, toString (AS.canRun AS.rne i m n ps t))
      | none => (w, "bad-op")
    | _, _, _, _ => (w, "bad-op")
  | ["orch.reset"] => ({ w with orch := {} }, "ok")
  | ["orch.register", id, rid, ts] =>
    match untok id, untok rid, ts.toInt? with
    | some (some i), some rd, some t => ({ w with orch := w.orch.register i rd t }, "ok")
    | _, _, _ => (w, "bad-op")
  -- test-only injection of an arbitrary record (the harness injects the same into the backends)
  | ["orch.inject", id, st, owner, ts] =>
    match untok id, Status.ofName? st, untok owner, ts.toInt? with
    | some (some i), some s, some ow, some t =>
      ({ w with orch := { w.orch with recs := w.orch.recs.set i { status := s, owner := ow, ts := t } } }, "ok")
    | _, _, _, _ => (w, "bad-op")
  | ["orch.set", id, req, rid, ts] =>
    match untok id, Status.ofName? req, untok rid, ts.toInt? with
    | some (some i), some rq, some rd, some t =>
      let (o, res) := w.orch.setStatus Gen.table i rq rd t
      ({ w with orch := o }, match res with | .ok r => "ok " ++ showRec r | .error e => showSetErr e)
    | _, _, _, _ => (w, "bad-op")
  | ["orch.get", id] =>
    match untok id with
    | some (some i) => (w, match w.orch.get i with | some r => showRec r | none => "err keyerror")
    | _ => (w, "bad-op")
  | _ => (w, "bad-op")

partial def loop (h : IO.FS.Stream) (out : IO.FS.Stream) (w : World) : IO Unit := do
  let line ← h.getLine
  if line.isEmpty then return ()
  let (w', o) := stepLine w (line.trimAscii.toString)
  out.putStrLn o
  out.flush
  loop h out w'

def main : IO Unit := do loop (← IO.getStdin) (← IO.getStdout) {}
